#!/usr/bin/env python3
"""Regenerates the table of seeded changes in DESIGN.md (between the seeded-table markers) from seeded/*/meta.json and a
bin/selftest log (developer helper).  usage: bin/mkseededtable.py <selftest log> [<more logs>...]  (later logs win)"""
import json, os, re, sys
V = os.path.dirname(os.path.dirname(os.path.abspath(__file__)))
log = "\n".join(open(a).read() for a in sys.argv[1:])
res = {}
for m in re.finditer(r"^SELFTEST (\S+): (detected by \S+ \((\d+) fingerprints\)\s*(.*)|MISSED.*|patch does not apply)$", log, re.M):
    res[m.group(1)] = (m.group(2), m.group(4) or "")
rows = ["| seeded id | needs, to manifest | first fingerprint(s) reported by the owning quick check |", "|---|---|---|"]
for d in sorted(os.listdir(os.path.join(V, "seeded"))):
    mp = os.path.join(V, "seeded", d, "meta.json")
    if not os.path.exists(mp):
        continue
    meta = json.load(open(mp))
    st, fps = res.get(d, ("(not in this log)", ""))
    short = []
    for fp in fps.split():
        fp = re.sub(r"github\.com/go-i2p/common/", "", fp)
        short.append("`" + fp[:110] + "`")
    cell = "<br>".join(short) if short else st
    rows.append("| %s | %s | %s |" % (d, meta["needs_to_manifest"].replace("|", "/"), cell))
p = os.path.join(V, "DESIGN.md")
s = open(p).read()
b, e = "<!-- seeded-table-begin -->", "<!-- seeded-table-end -->"
i, j = s.index(b), s.index(e)
s = s[:i + len(b)] + "\n" + "\n".join(rows) + "\n" + s[j:]
open(p, "w").write(s)
det = sum(1 for v in res.values() if v[0].startswith("detected"))
print("rows", len(rows) - 2, "detected in log", det, "of", len(res))
