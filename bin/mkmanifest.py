#!/usr/bin/env python3
"""Regenerates /verif/MANIFEST.json from the table below (developer helper; the MANIFEST is committed)."""
import json, os
V = os.path.dirname(os.path.dirname(os.path.abspath(__file__)))
ids = [json.loads(l)['id'] for l in open(os.path.join(V, 'properties.jsonl'))]

# property -> (level text, level note)
CLAIMED = {
 "C01": ("Bounded symbolic model checking of the real parsers and serialisers: every path through Read*/Bytes over symbolic input bytes is explored and 'serialisation == consumed bytes' is discharged by the SMT solver for all contents within the stated lengths and shapes.",
         "Bounds: free-form inputs up to the lengths stated per harness (harness/c/c01_*.go); composite structures on stated shape grids with all content symbolic. Logging and error formatting are stubs."),
 "C11": ("Bounded symbolic model checking of GoMapToMapping/ReadMapping/Data/ToGoMap: all map iteration orders are explored as forks, all key/value contents are symbolic, the encoding is compared with an independent reference encoder.",
         "Bounds: 0..2 entries (thorough 3) with key lengths 1..2 and value lengths 0..2, plus 255-byte strings with 1..2 entries; parser inputs up to 12 (thorough 16) bytes free-form. sort.SliceStable is an intrinsic (stable insertion sort calling the repo's less closure)."),
 "C12": ("Bounded symbolic model checking with value and width as free 64-bit variables: accept-iff-fits, big-endian layout and decode(encode) are discharged over the whole int64 x int64 space; dates over all int64 milliseconds through the real time package code.",
         "Division/multiplication by 1000/10^6 kernels are decided by cvc5 --solve-bv-as-int=sum when z3 times out. String lengths 0,1,2,255,256,257; reader inputs 0..6 and 255,256,257,300 bytes."),
 "C03": ("Bounded symbolic model checking of every remainder-returning parser: remainder is a suffix, consumed extent equals the declared extent, re-parsing exactly the consumed bytes gives the same value (spare bytes are symbolic, i.e. for every appended x), and a proper prefix chosen by the solver/grid is rejected.",
         "All cut points for the small parsers and RouterAddress; for the composite structures cut points 0,1,c/2,c-2,c-1 and +-1 around the signature start and the key block. Shapes as C01."),
 "C08": ("Bounded symbolic model checking with concrete pointers: after parsing, every input cell is replaced by a fresh symbol (Havoc) and serialisation/accessors are asserted unchanged; aliasing is exact because slice headers are concrete in the executor.",
         "Certificate, KeyCertificate, KeysAndCert/Destination/RouterIdentity with free type bytes; composites on the C01 shape grid."),
 "C09": ("Bounded symbolic model checking with all four key-type bytes free over the 16-bit code space (the solver splits by table entry and default): no path to a Destination/RouterIdentity yields a prohibited type, and permitted supported pairs are accepted.",
         "Embedded paths (RouterInfo, LeaseSet, LeaseSet2, MetaLeaseSet) are checked for the prohibited pairs whose key sizes equal a permitted pair's. DecryptInnerData/CreateBlindedDestination paths are covered under C16 stubs only."),
 "C10": ("Exhaustive over the code space: one symbolic int code covers every value; each lookup is asserted equal to the specification table written independently in the harness. Layout of the 384-byte block for every accepted type pair with symbolic content.",
         "Lookups: GetSignatureSize, GetSigningKeySize, GetCryptoKeySize, GetKeySizes, signature.SignatureSize, offline_signature.*Size, the two size maps, KeyCertificate size methods."),
 "C05": ("Bounded symbolic model checking over an idealised signature primitive: the library's verification stubs and the harness oracle evaluate one uninterpreted validity predicate V(alg,key,msg,sig); 'Verify succeeded' must imply V on the identity key over prefix||input bytes (and V of the offline block under the identity key). Counterexamples are realised with real Ed25519 keys and replayed natively.",
         "Shapes as C01 (Ed25519, RedDSA, ECDSA-P256, DSA identities; transient types 7 and 1 in quick). The mathematics of the primitives is assumed; what is decided is which bytes reach the primitive and what happens to its answer."),
 "C06": ("Bounded symbolic model checking with an ideal signing primitive (Sign returns fresh bytes sigma with V(pub(sk),msg,sigma)=true): constructor output verifies, and verifies again after Bytes -> Read*.",
         "RouterInfo (0..1 addresses, T: 2; options 0..2 pairs), LeaseSet (0..2 leases), LeaseSet2 (flags symbolic, 1 key, 1 lease), EncryptedLeaseSet (with/without offline block, two key representations), CreateOfflineSignature. Ed25519 keys only (the only type the constructors sign with)."),
 "C07": ("Bounded symbolic model checking with an ideal hash (equal inputs give equal digests; injectivity only where stated): Hash/IdentHash equal the hash of exactly the consumed identity bytes, addresses equal an independent bit-level base32/base64 of them, Equals/Equal iff serialisations are equal.",
         "Identities with free type bytes (hash/address harness) or five pinned shapes per side (equality harness). SHA-256 itself is idealised."),
 "C13": ("Bounded symbolic model checking through the real encoding/base32 and encoding/base64 code with the repo's encodings: encode == independent bit-level reference, decode(encode(x)) == x for all x up to 7 (T: 11/10) bytes; decoders on fully symbolic strings accept only the I2P alphabet and legal padding; size guards at limit-1, limit, limit+1.",
         "Strings of 8 (base32) and 4 (T: 8) (base64) characters with CR/LF excluded by assumption; megabyte inputs of the limit harness reach a stubbed coder (only the guard is decided)."),
 "C15": ("Bounded symbolic model checking through the real time package: header times for all 2^32 x 2^16 field values, lease end dates, NewLease2 range check over all instants, newest/oldest expiration membership and bounds, IsExpired with a symbolic clock; the x/÷-by-constant kernels are decided by cvc5 --solve-bv-as-int=iand with a z3 mirror session.",
         "Newest/oldest on 1..2 leases (T: 4); clock = any instant 2001..2096 with at most one hour drift between calls; dates below 2^63."),
 "C04": ("Bounded symbolic model checking with panics as implicit obligations of the executor (index/slice bounds, nil dereference, failed type assertion, division by zero, explicit panic) and loop/instruction caps for termination: all parser/decoder harnesses (free-form and shape-guided), parsers with free count bytes, constructors with free 64-bit type arguments, and every exported method (generated from the current API) on every value returned without error.",
         "Input lengths as stated per harness (free-form <= 22 bytes, structures up to their size + 8 bytes); not 'several times the largest structure'. String()-style formatting is swept on concrete content only. A feasible panic is replayed natively before it is reported."),
 "C19": ("Bounded symbolic model checking of pairs of equivalent entry points on the same symbolic input: equal acceptance, equal serialisation, equal remainder.",
         "Generic vs fast-path keys-and-cert readers within the fast paths' key types; pointer vs value readers; key certificate from bytes / certificate / types / builder / payload helper; certificate builder vs constructor; the three signature constructors; string and integer constructors."),
 "C20": ("Exhaustive enumeration of (exported type, exported method) pairs of the current API on zero values (generated per run through go/types; executed by the symbolic executor so that the panic site and the replay are uniform), plus bounded symbolic checking of the partial values parsers return together with an error for truncated encodings.",
         "Zero-value part: complete for the API at check time (27 types, 278 pairs on the unchanged tree); methods whose parameters have no nd generator are listed in the generated file. Failed-parse part: two shapes per structure, cut points at field boundaries."),
 "C18": ("Write-set reduction decided by bounded symbolic model checking: after parsing/constructing a value every existing object (receiver graph, input buffer, package-level state) is frozen, one read-only exported operation (generated from the current API) runs, and the executor reports any store, copy, in-place append or map update into a frozen object - for every input content, under two append-growth policies. If no read-only operation writes shared memory, concurrent readers are race-free under the Go memory model and each returns what it returns alone.",
         "Interleavings are not enumerated (the reduction replaces them). Logger, time.Now and the crypto dependency are assumed thread-safe. Values: C01 shapes (2-3 per structure) and small free-form inputs. A write-set finding has no single-run native replay; the replay file holds the input of the path."),
 "C14": ("Bounded symbolic model checking of constructors with symbolic contents on boundary grids of lengths/counts/flags: constructor ok => validator ok => serialises => parses back with empty remainder to the same bytes; each documented structural defect (key length not matching its type, count out of range, flag/offline mismatch, reserved bits, declared-length mismatch) is rejected by the constructor.",
         "Signature, Certificate, OfflineSignature, MappingValues/Mapping, KeysAndCert/Destination/RouterIdentity, RouterAddress, RouterInfo, LeaseSet, LeaseSet2, EncryptedLeaseSet. Time-dependent expiry excluded. Three constructor/validator disagreements are recorded as known findings (known_findings.json)."),
 "C17": ("Bounded symbolic model checking through the real net.ParseIP (net/netip) and strconv.Atoi code: host accessor succeeds iff the standard library parses the host option as an IP literal, returns that address, never reaches a name lookup; port accessor iff decimal 1..65535 in canonical form; helpers agree; option lookup by exact key; static key / IV exactly for 32 / 16 bytes.",
         "Host strings of 0..3 bytes (thorough: 4, and 7-byte dotted quads), port strings of 0..5 bytes, all contents; addresses built through NewRouterAddress and through the wire parser. net.ResolveIPAddr is a stub that records whether its argument is an IP literal."),
 "C02": ("Bounded symbolic model checking against an independent reference written from the I2P 0.9.67 layouts in the harness package (no /repo code): encodings assembled field by field (symbolic contents) must be accepted, consumed exactly and expose every encoded field through the accessors; constructor output is taken apart by reference offsets and compared field by field; mapping encoding and key-block alignment through the C11/C10 reference checks.",
         "LeaseSet2 (with/without offline block, 0..2 option pairs, 1..2 keys, 0..2 leases), RouterInfo (0..1 addresses, T: 2), LeaseSet, EncryptedLeaseSet, MetaLeaseSet per specification (recorded known finding: the implementation's entry layout deviates), Lease/Lease2, NewLeaseSet2/NewEncryptedLeaseSet encode direction. Semantic validity of key bytes and signatures is not part of the reference."),
}
NA_REASON = "check under construction in this session; it will be claimed once its harnesses run clean on the unchanged tree"

def chk(i):
    text, note = CLAIMED[i]
    return {"property_id": i, "quick_cmd": "bin/check %s quick" % i, "thorough_cmd": "bin/check %s thorough" % i,
            "evidence_file": "evidence/%s.json" % i, "replay_cmd_template": "bin/check --replay {path}", "engine": "ssasmt",
            "level_claimed": {"category": "model_checking", "text": text, "design_ref": "DESIGN.md section 6, " + i},
            "level_note": note,
            "technique": "SSA symbolic execution of the real Go code + SMT (z3 5.1 / cvc5 bv-as-int / z3 4.8), native replay of counterexamples"}

m = {"version": 1, "setup_cmd": "bin/setup",
     "hooks": {"guard": "verif", "enable": "no source hook exists: harnesses live in /verif/harness (module verifh, replace github.com/go-i2p/common => /repo) and are loaded together with /repo's current sources by the engine and by the native replay runner",
               "baseline_off_cmd": "cd /repo && go test -vet=off -count=1 -timeout 25m ./...", "source_commits": [], "add_only": True},
     "engines": [{"name": "ssasmt", "path": "engine/", "serves_properties": sorted(CLAIMED),
                  "kind_free_text": "symbolic executor for Go SSA (golang.org/x/tools/go/ssa v0.29.0) over /repo's current source; SMT-LIB2 to a live z3 5.1.0 session per worker, cvc5 --solve-bv-as-int=sum and z3 4.8.12 as escalation; every counterexample is replayed natively before it is reported"}],
     "checks": [chk(i) for i in ids if i in CLAIMED],
     "not_applicable": [{"property_id": i, "reason": NA_REASON} for i in ids if i not in CLAIMED],
     "notes": "bin/check <ID> <tier> rebuilds SSA from /repo's working tree on every run. Exit 0 = held on everything explored (KNOWN-FINDING lines allowed), exit 1 = VIOLATION line(s), exit 2 = infrastructure problem (never used to report a violation)."}
json.dump(m, open(os.path.join(V, 'MANIFEST.json'), 'w'), indent=1)
print("claimed:", sorted(CLAIMED))
