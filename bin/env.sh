# sourced by bin/check and bin/setup: toolchain for /repo (go1.24.12 from the module cache)
export GOFLAGS=-mod=mod GOPROXY=off GOTOOLCHAIN=local
unset GOSUMDB
G24ROOT=$(cd /repo 2>/dev/null && GOTOOLCHAIN=auto GOFLAGS=-mod=mod GOPROXY=off go env GOROOT 2>/dev/null)
if [ -z "$G24ROOT" ] || [ ! -x "$G24ROOT/bin/go" ]; then
  G24ROOT=/root/go/pkg/mod/golang.org/toolchain@v0.0.1-go1.24.12.linux-amd64
fi
export G24="$G24ROOT/bin/go"
export PATH="$G24ROOT/bin:$PATH"
export VERIF_DIR="$(cd "$(dirname "${BASH_SOURCE[0]}")/.." && pwd)"
