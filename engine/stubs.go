package main

import (
	"fmt"
	"go/types"
	"strings"

	"golang.org/x/tools/go/ssa"
)

func pkgPath(fn *ssa.Function) string {
	if fn.Pkg != nil {
		return fn.Pkg.Pkg.Path()
	}
	if fn.Signature.Recv() != nil {
		// method of an instantiated or external type
		s := fn.String()
		return s
	}
	return ""
}

func (m *Machine) newErr(msg string, wrapped Value) Value {
	m.errSeq++
	return Iface{typ: m.errType, val: &ErrV{id: m.errSeq, msg: msg, wrapped: wrapped}}
}

func (m *Machine) fmtMsg(args []Value, fmtIdx int) (string, Value) {
	msg := "<fmt>"
	if s, ok := args[fmtIdx].(Str); ok {
		if c, ok := s.concrete(); ok {
			msg = c
		}
	}
	var wrapped Value
	if len(args) > fmtIdx+1 {
		if va, ok := args[fmtIdx+1].(Slice); ok {
			for i := 0; i < va.len; i++ {
				if e, ok := va.node.elems[va.off+i].(Iface); ok {
					if _, isErr := e.val.(*ErrV); isErr && strings.Contains(msg, "%w") {
						wrapped = e
					}
				}
			}
		}
	}
	return msg, wrapped
}

// stub intercepts calls; ok=false means "interpret the SSA body".
func (m *Machine) stub(fn *ssa.Function, args []Value) (Value, bool) {
	name := fn.String()
	pp := ""
	if fn.Pkg != nil {
		pp = fn.Pkg.Pkg.Path()
	}
	results := fn.Signature.Results()
	opaqueResult := func(tag string) Value {
		switch results.Len() {
		case 0:
			return nil
		case 1:
			return Opaque{tag}
		}
		tp := make(Tuple, results.Len())
		for i := range tp {
			tp[i] = Opaque{tag}
		}
		return tp
	}
	if r, ok := m.intrinsic(name, fn, args); ok {
		return r, true
	}
	if r, ok := m.dolevYao(name, fn, args); ok {
		return r, true
	}
	if r, ok := m.syncStub(name, fn, args); ok {
		return r, true
	}
	switch {
	case strings.Contains(name, "github.com/go-i2p/logger") || strings.Contains(name, "sirupsen/logrus"):
		if results.Len() == 1 {
			return Ptr{node: m.logNode(), idx: 0}, true
		}
		return nil, true
	case pp == "verifh/nd":
		return m.ndStub(fn.Name(), args), true
	case name == "github.com/samber/oops.Errorf" || name == "fmt.Errorf":
		msg, w := m.fmtMsg(args, 0)
		return m.newErr(msg, w), true
	case name == "errors.New":
		msg, _ := m.fmtMsg(args, 0)
		return m.newErr(msg, nil), true
	case name == "github.com/samber/oops.Wrapf":
		if e := args[0].(Iface); e.typ == nil {
			return Iface{}, true
		}
		msg, _ := m.fmtMsg(args, 1)
		return m.newErr(msg+": "+m.errText(args[0]), args[0]), true
	case name == "github.com/samber/oops.Code" || strings.HasPrefix(name, "(github.com/samber/oops.OopsErrorBuilder).With") && !strings.HasSuffix(name, "Wrapf"):
		return Opaque{"oopsbuilder"}, true
	case name == "(github.com/samber/oops.OopsErrorBuilder).Errorf":
		msg, w := m.fmtMsg(args, 1)
		return m.newErr(msg, w), true
	case name == "(github.com/samber/oops.OopsErrorBuilder).Wrapf":
		if e := args[1].(Iface); e.typ == nil {
			return Iface{}, true
		}
		msg, _ := m.fmtMsg(args, 2)
		return m.newErr(msg+": "+m.errText(args[1]), args[1]), true
	case name == "errors.Is":
		cur, target := args[0].(Iface), args[1].(Iface)
		for cur.typ != nil {
			if cur.val == target.val {
				return m.tt.Bool(true), true
			}
			e, ok := cur.val.(*ErrV)
			if !ok || e.wrapped == nil {
				break
			}
			cur = e.wrapped.(Iface)
		}
		return m.tt.Bool(false), true
	case name == "sort.SliceStable" || name == "sort.Slice":
		sl := args[0].(Iface).val.(Slice)
		less := args[1].(*Closure)
		for i := 1; i < sl.len; i++ {
			for j := i; j > 0; j-- {
				r := m.call(less.fn, []Value{m.tt.Const(64, uint64(j)), m.tt.Const(64, uint64(j-1))}, less.env)
				if !m.branch(m.term(r)) {
					break
				}
				a, b := sl.off+j, sl.off+j-1
				m.noteWrite(sl.node, "element swap in "+name)
				sl.node.elems[a], sl.node.elems[b] = sl.node.elems[b], sl.node.elems[a]
			}
		}
		return nil, true
	case name == "crypto/ed25519.Verify":
		m.called["ed25519.Verify"] = true
		if a, ok := args[0].(Slice); ok && a.len != 32 {
			m.end("gopanic", "ed25519: bad public key length")
		}
		return m.sigValid(true, "ed25519", m.cellsOf(args[0]), m.cellsOf(args[1]), m.cellsOf(args[2])), true
	case name == "crypto/ed25519.VerifyWithOptions":
		m.called["ed25519.VerifyWithOptions"] = true
		v := m.sigValid(true, "ed25519ph", m.cellsOf(args[0]), m.cellsOf(args[1]), m.cellsOf(args[2]))
		if m.branch(v) {
			return Iface{}, true
		}
		return m.newErr("ed25519: invalid signature", nil), true
	case name == "crypto/ed25519.Sign":
		m.called["ed25519.Sign"] = true
		return m.signStub("ed25519", args[0], args[1]), true
	case name == "(crypto/ed25519.PrivateKey).Sign":
		m.called["ed25519.PrivateKey.Sign"] = true
		return Tuple{m.signStub("ed25519ph", args[0], args[2]), Iface{}}, true
	case (strings.HasPrefix(name, "(*encoding/base32.Encoding).") || strings.HasPrefix(name, "(*encoding/base64.Encoding).")) &&
		(fn.Name() == "EncodeToString" || fn.Name() == "DecodeString"):
		// megabyte inputs (size-limit harnesses) are not pushed through the interpreter: only the fact that
		// the coder was reached is recorded; results are zero-filled values of the right length
		n := 0
		switch a := args[1].(type) {
		case Slice:
			n = a.len
		case Str:
			n = len(a.cells)
		}
		if n <= 1<<16 {
			break
		}
		pk := "base32"
		if strings.Contains(name, "base64") {
			pk = "base64"
		}
		m.called[pk+"."+fn.Name()] = true
		if fn.Name() == "EncodeToString" {
			return Str{make([]*Term, 1)[:0]}, true
		}
		return Tuple{Slice{}, m.newErr("stubbed decoder on oversized input", nil)}, true
	case name == "time.Now":
		// the clock: base instant (shared by all calls of the path, seconds in [10^9, 4*10^9)) plus a fresh
		// non-negative drift below one hour per call; nanoseconds fresh.  Encoded as time.now() does without
		// the monotonic reading: wall = nsec, ext = seconds since year 1, loc = nil (UTC).
		m.called["time.Now"] = true
		base := m.nowBase()
		drift := m.fresh(64, "nowdrift")
		nsec := m.fresh(64, "nownsec")
		m.sol().Assert(m.tt.Cmp("bvult", drift, m.tt.Const(64, 3600)))
		m.sol().Assert(m.tt.Cmp("bvult", nsec, m.tt.Const(64, 1000000000)))
		t := m.newNode(3)
		t.elems[0] = nsec
		t.elems[1] = m.tt.Bin("bvadd", m.tt.Bin("bvadd", base, drift), m.tt.Const(64, 62135596800))
		t.elems[2] = Ptr{}
		return t, true
	case strings.HasPrefix(name, "unique.Make["):
		// unique.Make: a handle is a pointer to the canonical copy of the value; handles made from equal
		// values are equal.  Modelled with a per-path table of made values compared structurally (concrete
		// values only: net/netip makes handles for {}, {isV6:true} and zone strings).
		return m.uniqueMake(args[0]), true
	case strings.HasPrefix(name, "(unique.Handle[") && strings.HasSuffix(name, ").Value"):
		h := args[0].(*Node)
		p, _ := h.elems[0].(Ptr)
		if p.isNil() {
			m.end("gopanic", "unique.Handle.Value on zero handle")
		}
		return m.copyVal(p.node.elems[p.idx]), true
	case name == "(net.IP).To4":
		ip := args[0].(Slice)
		if ip.len == 4 {
			return ip, true
		}
		if ip.len == 16 {
			c := m.tt.Bool(true)
			for i := 0; i < 10; i++ {
				c = m.tt.And(c, m.tt.Cmp("=", m.term(ip.node.elems[ip.off+i]), m.c8(0)))
			}
			c = m.tt.And(c, m.tt.Cmp("=", m.term(ip.node.elems[ip.off+10]), m.c8(0xff)))
			c = m.tt.And(c, m.tt.Cmp("=", m.term(ip.node.elems[ip.off+11]), m.c8(0xff)))
			if m.branch(c) {
				return Slice{ip.node, ip.off + 12, 4, ip.cap - 12}, true
			}
		}
		return Slice{}, true
	case name == "net.ResolveIPAddr":
		// resolving an IP literal needs no DNS and returns that address; anything else would be a name lookup,
		// which C17 forbids: recorded, and answered with an arbitrary address
		addr := m.strOf(args[1])
		pf := m.prog.ImportedPackage("net")
		var ipv Value = Slice{}
		if pf != nil {
			if f := pf.Func("ParseIP"); f != nil {
				ipv = m.call(f, []Value{addr}, nil)
			}
		}
		ip, _ := ipv.(Slice)
		if ip.node == nil {
			m.called["net.ResolveIPAddr:non-literal"] = true
			n := m.newNode(16)
			for i := range n.elems {
				n.elems[i] = m.fresh(8, "dns")
			}
			ip = Slice{n, 0, 16, 16}
		} else {
			m.called["net.ResolveIPAddr:literal"] = true
		}
		st := m.newNode(2)
		st.elems[0] = ip
		st.elems[1] = Str{}
		slot := m.newNode(1)
		slot.elems[0] = st
		return Tuple{Ptr{node: slot, idx: 0}, Iface{}}, true
	case name == "crypto/sha256.New":
		return Iface{typ: results.At(0).Type(), val: &StubHasher{}}, true
	case name == "crypto/sha256.Sum256":
		m.called["sha256.Sum256"] = true
		cells := m.idealHash(m.cellsOf(args[0]))
		node := m.newNode(32)
		for i, c := range cells {
			node.elems[i] = c
		}
		return node, true
	case name == "crypto/rand.Read" || name == "io.ReadFull" && false:
		sl := args[0].(Slice)
		m.varSeq++
		for i := 0; i < sl.len; i++ {
			sl.node.elems[sl.off+i] = m.tt.Var(8, fmt.Sprintf("rnd%d_%d", m.varSeq, i))
		}
		m.noteWrite(sl.node, "crypto/rand.Read")
		return Tuple{m.tt.Const(64, uint64(sl.len)), Iface{}}, true
	case strings.HasSuffix(name, ".NewVerifier") && (strings.Contains(name, "crypto/dsa.DSAPublicKey") || strings.Contains(name, "crypto/ecdsa.ECP")):
		alg := "dsa"
		switch {
		case strings.Contains(name, "ECP256"):
			alg = "ecdsa-p256"
		case strings.Contains(name, "ECP384"):
			alg = "ecdsa-p384"
		case strings.Contains(name, "ECP521"):
			alg = "ecdsa-p521"
		}
		return Tuple{Iface{typ: results.At(0).Type(), val: &StubVerifier{alg: alg, key: m.cellsOf(args[0])}}, Iface{}}, true
	case name == "fmt.Sprintf":
		return m.sprintfStub(args), true
	case name == "bytes.Equal":
		a, b := args[0].(Slice), args[1].(Slice)
		if a.len != b.len {
			return m.tt.Bool(false), true
		}
		r := m.tt.Bool(true)
		for i := 0; i < a.len; i++ {
			r = m.tt.And(r, m.tt.Cmp("=", m.term(a.node.elems[a.off+i]), m.term(b.node.elems[b.off+i])))
		}
		return r, true
	case name == "crypto/subtle.ConstantTimeCompare":
		a, b := args[0].(Slice), args[1].(Slice)
		if a.len != b.len {
			return m.tt.Const(64, 0), true
		}
		r := m.tt.Bool(true)
		for i := 0; i < a.len; i++ {
			r = m.tt.And(r, m.tt.Cmp("=", m.term(a.node.elems[a.off+i]), m.term(b.node.elems[b.off+i])))
		}
		return m.tt.Ite(r, m.tt.Const(64, 1), m.tt.Const(64, 0)), true
	case name == "github.com/go-i2p/crypto/elg.NewElgPublicKey" || name == "github.com/go-i2p/crypto/dsa.NewDSAPublicKey":
		// length check real; validity = fresh bool; result = copy
		s := args[0].(Slice)
		want := 256
		if strings.Contains(name, "dsa") {
			want = 128
		}
		if s.len != want {
			if strings.Contains(name, "dsa") {
				return Tuple{m.zero(results.At(0).Type()), m.newErr("bad dsa key len", nil)}, true
			}
			return Tuple{Ptr{}, m.newErr("bad elg key len", nil)}, true
		}
		// Range check 2 <= y < p-1 (ElGamal) / 2 <= y < p (DSA) of the real constructor, decided exactly on
		// two regions and assumed away elsewhere (stated restriction: keys are explored with first byte 0 and
		// last byte >= 2 -- certainly valid, since both moduli exceed 2^1016 / 2^2040 -- or as the values 0 and
		// 1 -- certainly invalid).
		cells := make([]*Term, want)
		for i := 0; i < want; i++ {
			cells[i] = m.term(s.node.elems[s.off+i])
		}
		arr := m.newNode(want)
		for i := 0; i < want; i++ {
			arr.elems[i] = cells[i]
		}
		validR := m.tt.And(m.tt.Cmp("=", cells[0], m.c8(0)), m.tt.Cmp("bvule", m.c8(2), cells[want-1]))
		zeroHead := m.tt.Bool(true)
		for i := 0; i < want-1; i++ {
			zeroHead = m.tt.And(zeroHead, m.tt.Cmp("=", cells[i], m.c8(0)))
		}
		invalidR := m.tt.And(zeroHead, m.tt.Cmp("bvule", cells[want-1], m.c8(1)))
		if !m.branch(validR) {
			if !m.branch(invalidR) {
				m.end("assumed", "ElGamal/DSA public key outside the two modelled regions (first byte 0 and last byte >= 2: valid; value 0 or 1: invalid)")
			}
			if strings.Contains(name, "dsa") {
				return Tuple{m.zero(results.At(0).Type()), m.newErr("invalid dsa key", nil)}, true
			}
			return Tuple{Ptr{}, m.newErr("invalid elg key", nil)}, true
		}
		if strings.Contains(name, "dsa") {
			return Tuple{arr, Iface{}}, true
		}
		slot := m.newNode(1)
		slot.elems[0] = arr
		return Tuple{Ptr{node: slot, idx: 0}, Iface{}}, true
	}
	// package init of packages we do not execute
	if fn.Name() == "init" && fn.Pkg != nil && fn.Signature.Recv() == nil && !initPkg(pp) {
		return nil, true
	}
	if fn.Pkg != nil && !execPkg(pp) {
		_ = opaqueResult
		m.end("unsupported", "call into unmodelled package: "+name)
	}
	return nil, false
}

func (m *Machine) logNode() *Node {
	if m.logN == nil {
		m.logN = &Node{elems: make([]Value, 1), id: -1}
		st := &Node{elems: make([]Value, 8), id: -2}
		for i := range st.elems {
			st.elems[i] = Ptr{node: m.logN, idx: 0}
		}
		m.logN.elems[0] = st
	}
	return m.logN
}

func initPkg(p string) bool {
	if strings.HasPrefix(p, "github.com/go-i2p/common") || strings.HasPrefix(p, "verifh") {
		return true
	}
	switch p {
	case "encoding/base32", "encoding/base64", "github.com/go-i2p/crypto/types", "net/netip", "io":
		return true
	}
	return false
}

type sigApp struct {
	lib    bool // applied by a library-side stub (not by the nd.SigValid oracle)
	alg    string
	cells  []*Term
	kl, ml int
	res    *Term
}

// sigValid is the uninterpreted validity predicate V(alg,key,msg,sig), Ackermannised over a per-path log.
func (m *Machine) sigValid(lib bool, alg string, key, msg, sig []*Term) *Term {
	m.inLibSig = lib
	cells := append(append(append([]*Term{}, key...), msg...), sig...)
	for ai, a := range m.sigLog {
		if a.alg == alg && a.kl == len(key) && a.ml == len(msg) && len(a.cells) == len(cells) {
			same := true
			for i := range cells {
				if cells[i] != a.cells[i] {
					same = false
					break
				}
			}
			if same {
				if m.inLibSig {
					m.sigLog[ai].lib = true
				}
				return a.res
			}
		}
	}
	res := m.fresh(0, "V")
	for _, a := range m.sigLog {
		if a.alg == alg && a.kl == len(key) && a.ml == len(msg) && len(a.cells) == len(cells) {
			eq := m.tt.Bool(true)
			for i := range cells {
				eq = m.tt.And(eq, m.tt.Cmp("=", cells[i], a.cells[i]))
			}
			// congruence: equal arguments => equal results
			m.sol().Assert(m.tt.Or(m.tt.Not(eq), m.tt.Cmp("=", res, a.res)))
		}
	}
	m.sigLog = append(m.sigLog, sigApp{m.inLibSig, alg, cells, len(key), len(msg), res})
	return res
}

type hashApp struct {
	fn  string
	in  []*Term
	out []*Term
	inj bool
}

// idealHash: 32 fresh bytes per distinct input; equal inputs give equal digests (memo on
// identical cell lists, Ackermann constraint between same-length inputs otherwise).
func (m *Machine) idealHash(in []*Term) []*Term {
	return m.idealFn("sha256", in, 32, false)
}

// idealFn is an uninterpreted function fn: bytes -> n bytes, realised over a per-path log: identical argument
// lists return the same cells, same-length argument lists get the congruence constraint, and (inj, or after
// nd.AssumeHashInjective for sha256) different arguments get different results.
func (m *Machine) idealFn(fn string, in []*Term, n int, inj bool) []*Term {
	for _, a := range m.hashLog {
		if a.fn == fn && len(a.in) == len(in) {
			same := true
			for i := range in {
				if in[i] != a.in[i] {
					same = false
					break
				}
			}
			if same {
				return a.out
			}
		}
	}
	out := make([]*Term, n)
	m.varSeq++
	for i := range out {
		out[i] = m.tt.Var(8, fmt.Sprintf("F%d_%d", m.varSeq, i))
	}
	app := hashApp{fn, in, out, inj}
	for _, a := range m.hashLog {
		if a.fn != fn {
			continue
		}
		if len(a.in) == len(in) {
			eq := m.tt.Bool(true)
			for i := range in {
				eq = m.tt.And(eq, m.tt.Cmp("=", in[i], a.in[i]))
			}
			same := m.tt.Bool(true)
			for i := range out {
				same = m.tt.And(same, m.tt.Cmp("=", out[i], a.out[i]))
			}
			m.sol().Assert(m.tt.Or(m.tt.Not(eq), same))
		}
		if inj || (fn == "sha256" && m.hashInjective) {
			m.assertHashInjective(a, app)
		}
	}
	m.hashLog = append(m.hashLog, app)
	return out
}

// assertHashInjective adds "different inputs => different digests" for one pair of applications.
func (m *Machine) assertHashInjective(a, b hashApp) {
	same := m.tt.Bool(true)
	for i := range a.out {
		same = m.tt.And(same, m.tt.Cmp("=", a.out[i], b.out[i]))
	}
	if len(a.in) != len(b.in) {
		m.sol().Assert(m.tt.Not(same))
		return
	}
	eq := m.tt.Bool(true)
	for i := range a.in {
		eq = m.tt.And(eq, m.tt.Cmp("=", a.in[i], b.in[i]))
	}
	m.sol().Assert(m.tt.Or(eq, m.tt.Not(same)))
}

func execPkg(p string) bool {
	if strings.HasPrefix(p, "github.com/go-i2p/common") || strings.HasPrefix(p, "verifh") {
		return true
	}
	switch p {
	case "encoding/binary", "encoding/base32", "encoding/base64", "time", "errors", "unicode/utf8", "math/bits", "slices", "bytes", "strings", "sort", "strconv", "unicode", "encoding/hex", "internal/bytealg", "internal/stringslite", "cmp", "math", "net", "net/netip", "internal/itoa", "internal/byteorder", "io",
		"github.com/go-i2p/crypto/types", "github.com/go-i2p/crypto/ed25519", "github.com/go-i2p/crypto/curve25519",
		"github.com/go-i2p/crypto/ecdsa", "github.com/go-i2p/crypto/dsa", "github.com/go-i2p/crypto/elg", "github.com/go-i2p/crypto/red25519", "github.com/go-i2p/crypto/ed25519ph", "github.com/go-i2p/crypto/rsa":
		return true
	}
	return false
}

// StubHasher is the hash.Hash returned by the stubbed crypto/sha256.New: it accumulates what is written; Sum applies
// the ideal hash to it.
type StubHasher struct {
	cells []*Term
}

func (m *Machine) hasherInvoke(h *StubHasher, method string, args []Value) Value {
	switch method {
	case "Write":
		c := m.cellsOf(args[0])
		h.cells = append(h.cells, c...)
		return Tuple{m.tt.Const(64, uint64(len(c))), Iface{}}
	case "Sum":
		m.called["sha256.Sum256"] = true
		digest := m.idealHash(h.cells)
		// Sum appends: in place when the argument has room (h.Sum(buf[:0]) fills buf)
		if dst, ok := args[0].(Slice); ok && dst.node != nil && dst.len+len(digest) <= dst.cap {
			m.noteWrite(dst.node, "hash.Sum appending in place")
			for i, c := range digest {
				m.assignInto(dst.node, dst.off+dst.len+i, c)
			}
			return Slice{dst.node, dst.off, dst.len + len(digest), dst.cap}
		}
		out := append(append([]*Term{}, m.cellsOf(args[0])...), digest...)
		return m.byteSlice(out)
	case "Reset":
		h.cells = nil
		return nil
	case "Size":
		return m.tt.Const(64, 32)
	case "BlockSize":
		return m.tt.Const(64, 64)
	}
	m.end("unsupported", "method "+method+" on stub hasher")
	return nil
}

type syncMapEntry struct {
	key, val Value
}

// syncMapOp models sync.Map as an association list per map object; key comparison is Go's interface equality
// (forks on symbolic keys); Store / Delete / LoadOrStore are recorded as writes to the object holding the map.
func (m *Machine) syncMapOp(op string, args []Value) (Value, bool) {
	p, ok := args[0].(Ptr)
	if !ok || p.isNil() {
		m.end("gopanic", "sync.Map method on nil")
	}
	if m.syncMaps == nil {
		m.syncMaps = map[*Node][]syncMapEntry{}
	}
	key := p.node
	if n, ok := p.node.elems[p.idx].(*Node); ok {
		key = n
	}
	find := func(k Value) int {
		for i, e := range m.syncMaps[key] {
			if m.branch(m.valEq(e.key, k)) {
				return i
			}
		}
		return -1
	}
	switch op {
	case "Load":
		if i := find(args[1]); i >= 0 {
			return Tuple{m.copyVal(m.syncMaps[key][i].val), m.tt.Bool(true)}, true
		}
		return Tuple{Iface{}, m.tt.Bool(false)}, true
	case "Store":
		m.noteWrite(p.node, "sync.Map.Store")
		if i := find(args[1]); i >= 0 {
			m.syncMaps[key][i].val = m.copyVal(args[2])
		} else {
			m.syncMaps[key] = append(m.syncMaps[key], syncMapEntry{m.copyVal(args[1]), m.copyVal(args[2])})
		}
		return nil, true
	case "LoadOrStore":
		if i := find(args[1]); i >= 0 {
			return Tuple{m.copyVal(m.syncMaps[key][i].val), m.tt.Bool(true)}, true
		}
		m.noteWrite(p.node, "sync.Map.LoadOrStore")
		m.syncMaps[key] = append(m.syncMaps[key], syncMapEntry{m.copyVal(args[1]), m.copyVal(args[2])})
		return Tuple{m.copyVal(args[2]), m.tt.Bool(false)}, true
	case "Delete":
		if i := find(args[1]); i >= 0 {
			m.noteWrite(p.node, "sync.Map.Delete")
			m.syncMaps[key] = append(append([]syncMapEntry{}, m.syncMaps[key][:i]...), m.syncMaps[key][i+1:]...)
		}
		return nil, true
	}
	return nil, false
}

// StubVerifier is the verifier object returned by the stubbed NewVerifier of DSA / ECDSA keys.
type StubVerifier struct {
	alg string
	key []*Term
}

// verifierInvoke handles Verify / VerifyHash on a StubVerifier: the uninterpreted predicate V.
func (m *Machine) verifierInvoke(v *StubVerifier, method string, args []Value) Value {
	switch method {
	case "Verify", "VerifyHash":
		alg := v.alg
		if method == "VerifyHash" {
			alg += "-hash"
		}
		m.called[v.alg+".Verify"] = true
		// the real verifiers reject a signature of the wrong length before any mathematics
		if want := map[string]int{"dsa": 40, "ecdsa-p256": 64, "ecdsa-p384": 96, "ecdsa-p521": 132}[v.alg]; want != 0 && len(m.cellsOf(args[1])) != want {
			return m.newErr("bad signature size", nil)
		}
		ok := m.sigValid(true, alg, v.key, m.cellsOf(args[0]), m.cellsOf(args[1]))
		if m.branch(ok) {
			return Iface{}
		}
		return m.newErr("invalid signature", nil)
	}
	m.end("unsupported", "method "+method+" on stub verifier")
	return nil
}

// signStub models Sign(sk, msg): fresh signature bytes sigma with V(alg, pub(sk), msg, sigma) = true,
// pub(sk) being the last 32 bytes of a 64-byte Ed25519 private key.
func (m *Machine) signStub(alg string, sk, msg Value) Value {
	skc := m.cellsOf(sk)
	if len(skc) != 64 {
		m.end("gopanic", fmt.Sprintf("ed25519: bad private key length: %d", len(skc)))
	}
	m.varSeq++
	node := m.newNode(64)
	sig := make([]*Term, 64)
	for i := range sig {
		sig[i] = m.tt.Var(8, fmt.Sprintf("sig%d_%d", m.varSeq, i))
		node.elems[i] = sig[i]
	}
	v := m.sigValid(true, alg, skc[32:], m.cellsOf(msg), sig)
	m.sol().Assert(v)
	return Slice{node, 0, 64, 64}
}

// nowBase is the symbolic Unix time (seconds) of the path's clock.
func (m *Machine) nowBase() *Term {
	if m.nowT == nil {
		m.nowT = m.tt.Var(64, "nowbase")
		m.sol().Assert(m.tt.Cmp("bvule", m.tt.Const(64, 1000000000), m.nowT))
		m.sol().Assert(m.tt.Cmp("bvult", m.nowT, m.tt.Const(64, 4000000000)))
	}
	return m.nowT
}

// uniqueMake implements unique.Make on concrete values.
func (m *Machine) uniqueMake(v Value) Value {
	for _, e := range m.uniq {
		eq := m.valEq(e.val, v)
		if eq.IsConst() {
			if eq.val == 1 {
				return e.handle
			}
			continue
		}
		if m.branch(eq) {
			return e.handle
		}
	}
	slot := m.newNode(1)
	slot.elems[0] = m.copyVal(v)
	h := m.newNode(1)
	h.elems[0] = Ptr{node: slot, idx: 0}
	m.uniq = append(m.uniq, uniqEntry{val: m.copyVal(v), handle: h})
	return h
}

type uniqEntry struct {
	val    Value
	handle *Node
}

// errText is the message of an error value when it is one of the stub error objects; errors created by
// executed library code (e.g. *strconv.NumError) render as an un-matchable placeholder.
func (m *Machine) errText(v Value) string {
	if i, ok := v.(Iface); ok {
		if e, ok := i.val.(*ErrV); ok {
			return e.msg
		}
	}
	return "<error>"
}

// syncStub: the executor runs one goroutine, so locks never block: Lock/Unlock/RLock/RUnlock are no-ops (taking a
// lock is not reported as a write), sync.Once.Do runs its function the first time per Once object, and the
// sync/atomic operations on integers are plain loads and stores (stores are writes for the C18 monitor).
func (m *Machine) syncStub(name string, fn *ssa.Function, args []Value) (Value, bool) {
	switch name {
	case "(*sync.Mutex).Lock", "(*sync.Mutex).Unlock", "(*sync.RWMutex).Lock", "(*sync.RWMutex).Unlock",
		"(*sync.RWMutex).RLock", "(*sync.RWMutex).RUnlock", "(*sync.WaitGroup).Add", "(*sync.WaitGroup).Done", "(*sync.WaitGroup).Wait":
		return nil, true
	case "(*sync.Mutex).TryLock", "(*sync.RWMutex).TryLock", "(*sync.RWMutex).TryRLock":
		return m.tt.Bool(true), true
	case "(*sync.Map).Load", "(*sync.Map).Store", "(*sync.Map).LoadOrStore", "(*sync.Map).Delete":
		return m.syncMapOp(fn.Name(), args)
	case "(*sync.Pool).Get", "(*sync.Pool).Put":
		// sync.Pool as a LIFO list per pool object (one goroutine: what was put is what comes back); New is
		// field 1 of the struct {noCopy, local, localSize, victim, victimSize, New}
		p, ok := args[0].(Ptr)
		if !ok || p.isNil() {
			m.end("gopanic", "sync.Pool method on nil")
		}
		if m.syncMaps == nil {
			m.syncMaps = map[*Node][]syncMapEntry{}
		}
		key := p.node
		st, isStruct := p.node.elems[p.idx].(*Node)
		if isStruct {
			key = st
		}
		if fn.Name() == "Put" {
			if ifc, ok := args[1].(Iface); ok && ifc.typ == nil {
				return nil, true
			}
			m.noteWrite(p.node, "sync.Pool.Put")
			m.syncMaps[key] = append(m.syncMaps[key], syncMapEntry{nil, args[1]})
			return nil, true
		}
		if l := m.syncMaps[key]; len(l) > 0 {
			m.noteWrite(p.node, "sync.Pool.Get")
			v := l[len(l)-1].val
			m.syncMaps[key] = l[:len(l)-1]
			return v, true
		}
		if isStruct {
			for _, e := range st.elems {
				if cl, ok := e.(*Closure); ok && cl != nil {
					return m.call(cl.fn, nil, cl.env), true
				}
			}
		}
		return Iface{}, true
	case "(*sync.Once).Do":
		p, ok := args[0].(Ptr)
		if !ok || p.isNil() {
			m.end("gopanic", "sync.Once.Do on nil")
		}
		if m.onceDone == nil {
			m.onceDone = map[*Node]bool{}
		}
		key := p.node
		if n, ok := p.node.elems[p.idx].(*Node); ok {
			key = n
		}
		if !m.onceDone[key] {
			m.onceDone[key] = true
			m.noteWrite(p.node, "sync.Once.Do (first call)")
			if cl, ok := args[1].(*Closure); ok && cl != nil {
				m.call(cl.fn, nil, cl.env)
			}
		}
		return nil, true
	}
	if strings.HasPrefix(name, "(*sync/atomic.") && fn.Signature.Recv() != nil {
		// typed atomics (atomic.Int64, atomic.Bool, atomic.Pointer[T], atomic.Value): operate on the field "v"
		p, ok := args[0].(Ptr)
		if !ok || p.isNil() {
			m.end("gopanic", "atomic operation on nil")
		}
		st, ok := p.node.elems[p.idx].(*Node)
		if pt, ok2 := fn.Signature.Recv().Type().(*types.Pointer); ok && ok2 {
			if sst, ok3 := pt.Elem().Underlying().(*types.Struct); ok3 {
				vi := -1
				for i := 0; i < sst.NumFields(); i++ {
					if sst.Field(i).Name() == "v" {
						vi = i
					}
				}
				if vi >= 0 && vi < len(st.elems) {
					switch fn.Name() {
					case "Load":
						return m.copyVal(st.elems[vi]), true
					case "Store":
						m.noteWrite(st, "atomic store")
						m.assignInto(st, vi, args[1])
						return nil, true
					case "Swap":
						old := m.copyVal(st.elems[vi])
						m.noteWrite(st, "atomic swap")
						m.assignInto(st, vi, args[1])
						return old, true
					case "Add":
						if old, ok := st.elems[vi].(*Term); ok {
							nv := m.tt.Bin("bvadd", old, m.term(args[1]))
							m.noteWrite(st, "atomic add")
							st.elems[vi] = nv
							return nv, true
						}
					case "CompareAndSwap":
						if m.branch(m.valEq(st.elems[vi], args[1])) {
							m.noteWrite(st, "atomic compare-and-swap")
							m.assignInto(st, vi, args[2])
							return m.tt.Bool(true), true
						}
						return m.tt.Bool(false), true
					}
				}
			}
		}
		return nil, false
	}
	if strings.HasPrefix(name, "sync/atomic.") {
		op := strings.TrimPrefix(name, "sync/atomic.")
		p, ok := args[0].(Ptr)
		if !ok || p.isNil() {
			return nil, false
		}
		switch {
		case strings.HasPrefix(op, "Load"):
			return m.copyVal(p.node.elems[p.idx]), true
		case strings.HasPrefix(op, "Store"):
			m.noteWrite(p.node, "atomic store")
			m.assignInto(p.node, p.idx, args[1])
			return nil, true
		case strings.HasPrefix(op, "Add"):
			old, ok := p.node.elems[p.idx].(*Term)
			if !ok {
				return nil, false
			}
			nv := m.tt.Bin("bvadd", old, m.term(args[1]))
			m.noteWrite(p.node, "atomic add")
			p.node.elems[p.idx] = nv
			return nv, true
		case strings.HasPrefix(op, "CompareAndSwap"):
			old, ok := p.node.elems[p.idx].(*Term)
			if !ok {
				return nil, false
			}
			if m.branch(m.tt.Cmp("=", old, m.term(args[1]))) {
				m.noteWrite(p.node, "atomic compare-and-swap")
				p.node.elems[p.idx] = args[2]
				return m.tt.Bool(true), true
			}
			return m.tt.Bool(false), true
		}
	}
	return nil, false
}

// sprintfStub: formatting is not modelled.  With concrete arguments the result is an opaque constant; when an
// argument is symbolic the result is an uninterpreted function of (format, arguments) -- 16 opaque bytes -- so
// that data flowing through Sprintf keeps its dependence on the arguments (injective for formats made of %d-style
// verbs and literal separators, congruent otherwise).
func (m *Machine) sprintfStub(args []Value) Value {
	f, _ := m.strOf(args[0]).concrete()
	var cells []*Term
	symbolic := false
	if len(args) > 1 {
		if va, ok := args[1].(Slice); ok {
			for i := 0; i < va.len; i++ {
				e, ok := va.node.elems[va.off+i].(Iface)
				if !ok {
					continue
				}
				switch v := e.val.(type) {
				case *Term:
					w := v.w
					if w == 0 {
						w = 1
					}
					for b := 0; b < (w+7)/8; b++ {
						hi := 8*b + 7
						if hi >= v.w {
							hi = v.w - 1
						}
						if v.w == 0 {
							cells = append(cells, m.tt.Ite(v, m.c8(1), m.c8(0)))
							break
						}
						cells = append(cells, m.tt.Zext(m.tt.Extract(v, hi, 8*b), 8))
					}
					if !v.IsConst() {
						symbolic = true
					}
				case Str:
					cells = append(cells, m.c8(byte(len(v.cells))))
					cells = append(cells, v.cells...)
					if _, ok := v.concrete(); !ok {
						symbolic = true
					}
				case Slice:
					for j := 0; j < v.len; j++ {
						if t, ok := v.node.elems[v.off+j].(*Term); ok {
							cells = append(cells, t)
							if !t.IsConst() {
								symbolic = true
							}
						}
					}
				}
			}
		}
	}
	if !symbolic {
		return m.strConst("<sprintf>")
	}
	inj := true
	for i := 0; i < len(f); i++ {
		if f[i] == '%' {
			j := i + 1
			for j < len(f) && (f[j] >= '0' && f[j] <= '9') {
				j++
			}
			if j >= len(f) || f[j] != 'd' {
				inj = false
			}
			i = j
		}
	}
	return Str{m.idealFn("sprintf|"+f, cells, 16, inj)}
}
