package main

import (
	"fmt"
	"go/constant"
	"go/token"
	"go/types"
	"strings"

	"golang.org/x/tools/go/ssa"
)

type pathEnd struct {
	kind string // "gopanic", "vacuous", "unsupported", "budget"
	msg  string
}

// draw is one nd.* draw of the current path: its kind and the terms standing for its values.
type draw struct {
	kind  string // bytes, int, bool, havoc, string
	w     int
	terms []*Term
}

// Machine executes one path (one decision prefix) of one harness.
type Machine struct {
	w             *Worker
	hr            *HarnessRun
	prog          *ssa.Program
	tt            *TermTable
	prefix        []uint64
	pos           int
	trail         []uint64
	newWork       [][]uint64
	globals       map[*ssa.Global]*Node
	inited        map[*ssa.Package]bool
	nodeSeq       int
	errSeq        int
	varSeq        int
	draws         []draw
	errType       types.Type
	steps         int64
	curInstr      string
	stack         []*ssa.Function
	sigLog        []sigApp
	hashLog       []hashApp
	frozen        int // nodes with id <= frozen existed before nd.Freeze(); writes to them are reported
	logN          *Node
	covers        map[string]bool
	called        map[string]bool
	asserts       int
	assertsSyn    int
	obligations   int
	inconclusive  int
	events        []pathEvent
	loopMax       int
	observes      []observed
	lastSite      string
	expects       []string
	inLibSig      bool
	hashInjective bool
	nowT          *Term
	inInit        int
	uniq          []uniqEntry
	onceDone      map[*Node]bool
	nowObserved   bool                     // the harness read the clock through nd.NowUnix
	syncMaps      map[*Node][]syncMapEntry // sync.Map contents, keyed by the node holding the map value
	aeadLog       []aeadEnc
	zoneOff       map[*Node]*Term
	locOff        map[*Node]*Term
	context       string // nd.Context: the swept case, part of panic fingerprints
}

type observed struct {
	label string
	terms []*Term
}

// pathEvent is something a path reports to the run: a violated assertion, a write-set hit...
type pathEvent struct {
	kind     string // "assert", "write"
	label    string
	detail   string
	model    []drawVal
	realised []drawVal // model patched with real keys/signatures (see realise.go)
}

type drawVal struct {
	Kind string   `json:"k"`
	V    []uint64 `json:"v"`
}

func (m *Machine) sol() *Solver { return m.w.sol }

type deferred struct {
	fn   *ssa.Function
	args []Value
	env  []Value
	bi   *ssa.Builtin
}

type frame struct {
	fn     *ssa.Function
	locals map[ssa.Value]Value
	env    []Value
	defers []deferred
}

func (m *Machine) panicSiteFromStack() string { return m.lastSite }

func (m *Machine) end(kind, msg string) {
	if kind == "gopanic" || kind == "budget" {
		m.lastSite = m.panicSite()
	}
	panic(pathEnd{kind, msg})
}

// panicSite names the innermost function of /repo on the call stack (stable fingerprint).
func (m *Machine) panicSite() string {
	for i := len(m.stack) - 1; i >= 0; i-- {
		f := m.stack[i]
		if f.Pkg != nil && strings.HasPrefix(f.Pkg.Pkg.Path(), "github.com/go-i2p/common") {
			return f.String()
		}
		if f.Pkg == nil && strings.Contains(f.String(), "github.com/go-i2p/common") {
			return f.String()
		}
	}
	if len(m.stack) > 0 {
		return m.stack[len(m.stack)-1].String()
	}
	return "?"
}

// ---------- decisions ----------

func (m *Machine) nextDecision() (uint64, bool) {
	if m.pos < len(m.prefix) {
		v := m.prefix[m.pos]
		m.pos++
		m.trail = append(m.trail, v)
		return v, true
	}
	return 0, false
}

func (m *Machine) newDecision(options []uint64) uint64 {
	for _, o := range options[1:] {
		alt := append(append([]uint64{}, m.trail...), o)
		m.newWork = append(m.newWork, alt)
	}
	m.pos++
	m.trail = append(m.trail, options[0])
	return options[0]
}

func (m *Machine) branch(c *Term) bool {
	if c.IsConst() {
		return c.val == 1
	}
	if v, ok := m.nextDecision(); ok {
		if v == 1 {
			m.sol().Assert(c)
		} else {
			m.sol().Assert(m.tt.Not(c))
		}
		return v == 1
	}
	rt := m.sol().CheckWith(c)
	var opts []uint64
	if rt != "unsat" {
		opts = append(opts, 1)
		if rt != "sat" {
			m.inconclusive++
		}
	}
	if len(opts) == 0 {
		opts = append(opts, 0) // PC is satisfiable, so the other side must be
	} else {
		rf := m.sol().CheckWith(m.tt.Not(c))
		if rf != "unsat" {
			opts = append(opts, 0)
			if rf != "sat" {
				m.inconclusive++
			}
		}
	}
	v := m.newDecision(opts)
	if v == 1 {
		m.sol().Assert(c)
	} else {
		m.sol().Assert(m.tt.Not(c))
	}
	return v == 1
}

// concretize returns a concrete value for t, forking over all feasible values.
func (m *Machine) concretize(t *Term, what string) uint64 {
	if t.IsConst() {
		return t.val
	}
	if v, ok := m.nextDecision(); ok {
		m.sol().Assert(m.tt.Cmp("=", t, m.tt.Const(t.w, v)))
		return v
	}
	var opts []uint64
	m.sol().Push()
	cap := m.hr.fanoutCap
	for {
		r, vals := m.sol().CheckModel([]*Term{t})
		if r != "sat" {
			if r != "unsat" {
				m.inconclusive++
			}
			break
		}
		v := vals[0]
		opts = append(opts, v)
		if len(opts) > cap {
			m.sol().Pop()
			m.end("budget", "fan-out cap exceeded concretizing "+what)
		}
		m.sol().Assert(m.tt.Not(m.tt.Cmp("=", t, m.tt.Const(t.w, v))))
	}
	m.sol().Pop()
	if len(opts) == 0 {
		m.end("vacuous", "no feasible value")
	}
	v := m.newDecision(opts)
	m.sol().Assert(m.tt.Cmp("=", t, m.tt.Const(t.w, v)))
	return v
}

func (m *Machine) fresh(w int, base string) *Term {
	m.varSeq++
	return m.tt.Var(w, fmt.Sprintf("%s_%d", base, m.varSeq))
}

// ---------- evaluation ----------

func (m *Machine) constVal(c *ssa.Const) Value {
	t := c.Type()
	if c.Value == nil {
		return m.zero(t)
	}
	if isString(t) {
		return m.strConst(constant.StringVal(c.Value))
	}
	w := width(t)
	switch {
	case w == 0:
		return m.tt.Bool(constant.BoolVal(c.Value))
	case w > 0:
		if isSigned(t) || t.Underlying().(*types.Basic).Info()&types.IsUntyped != 0 {
			return m.tt.Const(w, uint64(c.Int64()))
		}
		return m.tt.Const(w, c.Uint64())
	}
	panic(fmt.Sprintf("const of type %v", t))
}

func (m *Machine) eval(v ssa.Value, fr *frame) Value {
	switch x := v.(type) {
	case *ssa.Const:
		return m.constVal(x)
	case *ssa.Global:
		return Ptr{node: m.global(x), idx: 0}
	case *ssa.Function:
		return &Closure{fn: x}
	case *ssa.Builtin:
		return x
	case *ssa.FreeVar:
		for i, fv := range fr.fn.FreeVars {
			if fv == x {
				return fr.env[i]
			}
		}
	}
	r, ok := fr.locals[v]
	if !ok {
		panic(fmt.Sprintf("no value for %s (%T) in %s", v.Name(), v, fr.fn))
	}
	return r
}

func (m *Machine) global(g *ssa.Global) *Node {
	if n, ok := m.globals[g]; ok {
		return n
	}
	n := m.newNode(1)
	n.glob = true
	n.elems[0] = m.zero(g.Type().(*types.Pointer).Elem())
	if strings.HasSuffix(g.Type().String(), "logger.Logger") {
		n.elems[0] = Ptr{node: m.logNode(), idx: 0}
	}
	if g.Pkg != nil && g.Pkg.Pkg.Path() == "time" && g.Name() == "Local" {
		// time's init is not run: Local has to be a non-nil location distinct from UTC (nil / &utcLoc)
		if ll, ok := g.Pkg.Members["localLoc"].(*ssa.Global); ok {
			n.elems[0] = Ptr{node: m.global(ll), idx: 0}
		}
	}
	m.globals[g] = n
	if pp := g.Pkg.Pkg.Path(); g.Pkg != nil && !m.inited[g.Pkg] && initPkg(pp) {
		m.inited[g.Pkg] = true
		if f := g.Pkg.Func("init"); f != nil {
			m.inInit++
			m.call(f, nil, nil)
			m.inInit--
		}
	}
	return n
}

func (m *Machine) term(v Value) *Term {
	t, ok := v.(*Term)
	if !ok {
		panic(fmt.Sprintf("expected scalar, got %T", v))
	}
	return t
}

func (m *Machine) call(fn *ssa.Function, args []Value, env []Value) Value {
	if r, ok := m.stub(fn, args); ok {
		return r
	}
	if fn.Blocks == nil {
		m.end("unsupported", "external function "+fn.String())
	}
	m.hr.noteFunc(fn)
	if len(m.stack) > 400 {
		m.end("budget", "call depth")
	}
	m.stack = append(m.stack, fn)
	defer func() { m.stack = m.stack[:len(m.stack)-1] }()
	fr := &frame{fn: fn, locals: make(map[ssa.Value]Value, 32), env: env}
	for i, p := range fn.Params {
		fr.locals[p] = args[i]
	}
	block := fn.Blocks[0]
	var prev *ssa.BasicBlock
	visits := map[*ssa.BasicBlock]int{}
	for {
		var next *ssa.BasicBlock
		visits[block]++
		if visits[block] > m.loopMax {
			m.loopMax = visits[block]
		}
		if visits[block] > m.hr.loopCap {
			m.end("budget", fmt.Sprintf("loop cap %d exceeded in %s", m.hr.loopCap, fn))
		}
		for _, instr := range block.Instrs {
			m.steps++
			if m.steps > m.hr.stepCap {
				m.end("budget", "instruction budget")
			}
			switch in := instr.(type) {
			case *ssa.Phi:
				for i, p := range block.Preds {
					if p == prev {
						fr.locals[in] = m.eval(in.Edges[i], fr)
						break
					}
				}
			case *ssa.If:
				if m.branch(m.term(m.eval(in.Cond, fr))) {
					next = block.Succs[0]
				} else {
					next = block.Succs[1]
				}
			case *ssa.Jump:
				next = block.Succs[0]
			case *ssa.Return:
				m.runDefers(fr)
				switch len(in.Results) {
				case 0:
					return nil
				case 1:
					return m.eval(in.Results[0], fr)
				}
				tp := make(Tuple, len(in.Results))
				for i, r := range in.Results {
					tp[i] = m.eval(r, fr)
				}
				return tp
			case *ssa.RunDefers:
				m.runDefers(fr)
			case *ssa.Defer:
				m.pushDefer(in, fr)
			case *ssa.Panic:
				m.end("gopanic", "explicit panic in "+fn.String())
			case *ssa.Store:
				p := m.eval(in.Addr, fr).(Ptr)
				if p.isNil() {
					m.end("gopanic", "nil pointer store in "+fn.String())
				}
				if p.sym != nil {
					v := m.term(m.eval(in.Val, fr))
					m.noteWrite(p.node, fn.String())
					for i := 0; i < p.n; i++ {
						old := m.term(p.node.elems[p.idx+i])
						p.node.elems[p.idx+i] = m.tt.Ite(m.tt.Cmp("=", p.sym, m.tt.Const(p.sym.w, uint64(i))), v, old)
					}
					break
				}
				m.noteWrite(p.node, fn.String())
				m.assignInto(p.node, p.idx, m.eval(in.Val, fr))
			case *ssa.MapUpdate:
				m.mapUpdate(m.eval(in.Map, fr).(*MapObj), m.eval(in.Key, fr), m.eval(in.Value, fr), fn)
			case *ssa.DebugRef:
			case ssa.Value:
				m.curInstr = fn.String() + ": " + in.String()
				fr.locals[in] = m.step(in, fr)
			default:
				m.end("unsupported", fmt.Sprintf("instruction %T in %s", instr, fn))
			}
		}
		prev, block = block, next
	}
}

func (m *Machine) pushDefer(in *ssa.Defer, fr *frame) {
	c := in.Call
	d := deferred{}
	if c.IsInvoke() {
		m.end("unsupported", "deferred interface method call in "+fr.fn.String())
	}
	for _, a := range c.Args {
		d.args = append(d.args, m.eval(a, fr))
	}
	switch f := c.Value.(type) {
	case *ssa.Builtin:
		d.bi = f
	case *ssa.Function:
		d.fn = f
	default:
		cl, ok := m.eval(c.Value, fr).(*Closure)
		if !ok || cl == nil {
			m.end("gopanic", "defer of nil func in "+fr.fn.String())
		}
		d.fn, d.env = cl.fn, cl.env
	}
	fr.defers = append(fr.defers, d)
}

func (m *Machine) runDefers(fr *frame) {
	for len(fr.defers) > 0 {
		d := fr.defers[len(fr.defers)-1]
		fr.defers = fr.defers[:len(fr.defers)-1]
		if d.bi != nil {
			continue // deferred builtins (close, delete, print) have no effect we model
		}
		m.call(d.fn, d.args, d.env)
	}
}

func (m *Machine) step(v ssa.Value, fr *frame) Value {
	switch in := v.(type) {
	case *ssa.Alloc:
		n := m.newNode(1)
		n.elems[0] = m.zero(in.Type().(*types.Pointer).Elem())
		return Ptr{node: n, idx: 0}
	case *ssa.UnOp:
		x := m.eval(in.X, fr)
		switch in.Op {
		case token.MUL:
			p := x.(Ptr)
			if p.isNil() {
				m.end("gopanic", "nil pointer dereference in "+fr.fn.String())
			}
			if p.sym != nil {
				cells := make([]*Term, p.n)
				for i := 0; i < p.n; i++ {
					cells[i] = m.term(p.node.elems[p.idx+i])
				}
				if r := m.mapLeaves(cells, p.sym, 0); r != nil {
					return r
				}
				acc := cells[p.n-1]
				for i := p.n - 2; i >= 0; i-- {
					acc = m.tt.Ite(m.tt.Cmp("=", p.sym, m.tt.Const(p.sym.w, uint64(i))), cells[i], acc)
				}
				return m.collapseIdentity(acc)
			}
			return m.copyVal(p.node.elems[p.idx])
		case token.NOT:
			return m.tt.Not(m.term(x))
		case token.SUB:
			return m.tt.BvNeg(m.term(x))
		case token.XOR:
			return m.tt.BvNot(m.term(x))
		}
	case *ssa.BinOp:
		return m.binop(in.Op, m.eval(in.X, fr), m.eval(in.Y, fr), in.X.Type(), in.Y.Type())
	case *ssa.Call:
		return m.doCall(in, fr)
	case *ssa.ChangeInterface:
		return m.eval(in.X, fr)
	case *ssa.ChangeType:
		return m.eval(in.X, fr)
	case *ssa.Convert:
		return m.convert(m.eval(in.X, fr), in.X.Type(), in.Type())
	case *ssa.Extract:
		return m.eval(in.Tuple, fr).(Tuple)[in.Index]
	case *ssa.Field:
		return m.copyVal(m.eval(in.X, fr).(*Node).elems[in.Field])
	case *ssa.FieldAddr:
		p := m.eval(in.X, fr).(Ptr)
		if p.isNil() {
			m.end("gopanic", "nil pointer field access in "+fr.fn.String())
		}
		return Ptr{node: p.node.elems[p.idx].(*Node), idx: in.Field}
	case *ssa.Index:
		x := m.eval(in.X, fr)
		if it := m.term(m.eval(in.Index, fr)); !it.IsConst() {
			switch a := x.(type) {
			case Str:
				return m.indexCells(a.cells, it, "string index", fr)
			case *Node:
				if len(a.elems) > 0 && len(a.elems) <= 256 {
					if _, scalar := a.elems[0].(*Term); scalar {
						cells := make([]*Term, len(a.elems))
						for i := range cells {
							cells[i] = m.term(a.elems[i])
						}
						return m.indexCells(cells, it, "array index", fr)
					}
				}
			}
		}
		i := int(m.concretize(m.term(m.eval(in.Index, fr)), "index"))
		switch a := x.(type) {
		case *Node:
			if i < 0 || i >= len(a.elems) {
				m.end("gopanic", "array index out of range in "+fr.fn.String())
			}
			return m.copyVal(a.elems[i])
		case Str:
			if i < 0 || i >= len(a.cells) {
				m.end("gopanic", "string index out of range in "+fr.fn.String())
			}
			return a.cells[i]
		}
	case *ssa.IndexAddr:
		x := m.eval(in.X, fr)
		it := m.term(m.eval(in.Index, fr))
		if !it.IsConst() {
			var node *Node
			off, n := 0, 0
			switch a := x.(type) {
			case Ptr:
				if !a.isNil() {
					node = a.node.elems[a.idx].(*Node)
					n = len(node.elems)
				}
			case Slice:
				node, off, n = a.node, a.off, a.len
			}
			if node != nil && n > 0 && n <= 256 {
				if _, scalar := node.elems[off].(*Term); scalar {
					inb := m.tt.Bool(true)
					if uint64(n) <= maxU(it) {
						inb = m.tt.Cmp("bvult", it, m.tt.Const(it.w, uint64(n)))
					}
					if !m.branch(inb) {
						m.end("gopanic", "symbolic index out of range in "+fr.fn.String())
					}
					return Ptr{node: node, idx: off, sym: it, n: n}
				}
			}
		}
		i := int(int64(m.concretize(it, "index")))
		switch a := x.(type) {
		case Ptr:
			if a.isNil() {
				m.end("gopanic", "nil array pointer in "+fr.fn.String())
			}
			arr := a.node.elems[a.idx].(*Node)
			if i < 0 || i >= len(arr.elems) {
				m.end("gopanic", fmt.Sprintf("index %d out of range [%d] in %s", i, len(arr.elems), fr.fn))
			}
			return Ptr{node: arr, idx: i}
		case Slice:
			if i < 0 || i >= a.len {
				m.end("gopanic", fmt.Sprintf("index %d out of range [%d] in %s", i, a.len, fr.fn))
			}
			return Ptr{node: a.node, idx: a.off + i}
		}
	case *ssa.SliceToArrayPointer:
		sl := m.eval(in.X, fr).(Slice)
		n := int(in.Type().(*types.Pointer).Elem().Underlying().(*types.Array).Len())
		if sl.len < n {
			m.end("gopanic", fmt.Sprintf("cannot convert slice with length %d to array or pointer to array with length %d in %s", sl.len, n, fr.fn))
		}
		if sl.node == nil {
			return Ptr{}
		}
		slot := m.newNode(1)
		if sl.off == 0 && len(sl.node.elems) == n {
			slot.elems[0] = sl.node // exact alias of the backing array
		} else {
			// a view into the middle of a larger backing array: modelled as a copy (exact for the
			// read-and-copy idiom *(*[N]T)(s); writes through the pointer would not be seen by the slice)
			arr := m.newNode(n)
			for i := 0; i < n; i++ {
				arr.elems[i] = m.copyVal(sl.node.elems[sl.off+i])
			}
			slot.elems[0] = arr
		}
		return Ptr{node: slot, idx: 0}
	case *ssa.Lookup:
		return m.lookup(in, fr)
	case *ssa.MakeClosure:
		c := &Closure{fn: in.Fn.(*ssa.Function)}
		for _, b := range in.Bindings {
			c.env = append(c.env, m.eval(b, fr))
		}
		return c
	case *ssa.MakeInterface:
		return Iface{typ: in.X.Type(), val: m.eval(in.X, fr)}
	case *ssa.MakeMap:
		if strings.HasSuffix(in.Type().String(), "logger.Fields") {
			return &MapObj{opaque: true}
		}
		return m.newMap()
	case *ssa.MakeSlice:
		l := int(int64(m.concretize(m.term(m.eval(in.Len, fr)), "make len")))
		c := int(int64(m.concretize(m.term(m.eval(in.Cap, fr)), "make cap")))
		if l < 0 || c < l {
			m.end("gopanic", "makeslice: len out of range in "+fr.fn.String())
		}
		if c > 1<<25 {
			m.end("budget", "huge make")
		}
		n := m.newNode(c)
		et := in.Type().Underlying().(*types.Slice).Elem()
		for i := range n.elems {
			n.elems[i] = m.zero(et)
		}
		return Slice{n, 0, l, c}
	case *ssa.Slice:
		return m.slice(in, fr)
	case *ssa.TypeAssert:
		x := m.eval(in.X, fr).(Iface)
		ok := false
		if x.typ != nil {
			if it, isI := in.AssertedType.Underlying().(*types.Interface); isI {
				ok = types.Implements(x.typ, it)
			} else {
				ok = types.Identical(x.typ, in.AssertedType)
			}
		}
		var val Value
		if ok {
			if _, isI := in.AssertedType.Underlying().(*types.Interface); isI {
				val = x
			} else {
				val = x.val
			}
		} else {
			if !in.CommaOk {
				m.end("gopanic", "failed type assertion in "+fr.fn.String())
			}
			val = m.zero(in.AssertedType)
		}
		if in.CommaOk {
			return Tuple{val, m.tt.Bool(ok)}
		}
		return val
	case *ssa.Range:
		switch x := m.eval(in.X, fr).(type) {
		case *MapObj:
			it := &rangeIter{m: x}
			if x != nil && len(x.keys) > 4 {
				// large maps: all n! orders are out of reach; three representative orders are explored
				// (insertion order, reverse, evens-then-odds) -- a stated bound of the map-iteration model
				n := len(x.keys)
				var p uint64
				if v, ok := m.nextDecision(); ok {
					p = v
				} else {
					p = m.newDecision([]uint64{0, 1, 2})
				}
				perm := make([]int, 0, n)
				switch p {
				case 0:
					for i := 0; i < n; i++ {
						perm = append(perm, i)
					}
				case 1:
					for i := n - 1; i >= 0; i-- {
						perm = append(perm, i)
					}
				default:
					for i := 0; i < n; i += 2 {
						perm = append(perm, i)
					}
					for i := 1; i < n; i += 2 {
						perm = append(perm, i)
					}
				}
				it.perm = perm
			} else if x != nil && len(x.keys) > 1 {
				// iteration order is unspecified: explore every permutation
				n := len(x.keys)
				f := 1
				for i := 2; i <= n; i++ {
					f *= i
				}
				var p uint64
				if v, ok := m.nextDecision(); ok {
					p = v
				} else {
					opts := make([]uint64, f)
					for i := range opts {
						opts[i] = uint64(i)
					}
					p = m.newDecision(opts)
				}
				idx := make([]int, n)
				for i := range idx {
					idx[i] = i
				}
				perm := make([]int, 0, n)
				for i := n; i > 0; i-- {
					k := int(p % uint64(i))
					p /= uint64(i)
					perm = append(perm, idx[k])
					idx = append(idx[:k], idx[k+1:]...)
				}
				it.perm = perm
			}
			return it
		case Str:
			return &rangeIter{s: x, isStr: true}
		}
	case *ssa.Next:
		it := m.eval(in.Iter, fr).(*rangeIter)
		return m.next(it, in)
	}
	m.end("unsupported", fmt.Sprintf("instruction %T (%s) in %s", v, v, fr.fn))
	return nil
}

type rangeIter struct {
	perm  []int
	m     *MapObj
	s     Str
	isStr bool
	i     int
}

func (m *Machine) next(it *rangeIter, in *ssa.Next) Value {
	tp := in.Type().(*types.Tuple)
	if it.isStr {
		if it.i >= len(it.s.cells) {
			return Tuple{m.tt.Bool(false), m.tt.Const(64, 0), m.tt.Const(32, 0)}
		}
		i := it.i
		r, w := m.decodeRune(it.s.cells[i:])
		it.i += w
		return Tuple{m.tt.Bool(true), m.tt.Const(64, uint64(i)), r}
	}
	n := 0
	if it.m != nil {
		n = len(it.m.keys)
	}
	if it.i >= n {
		return Tuple{m.tt.Bool(false), m.zero(tp.At(1).Type()), m.zero(tp.At(2).Type())}
	}
	i := it.i
	it.i++
	if it.perm != nil {
		i = it.perm[i]
	}
	return Tuple{m.tt.Bool(true), it.m.keys[i], it.m.vals[i]}
}

// indexCells reads cells[i] for a symbolic index: bounds obligation first, then an ite chain over the
// cells (no fork per value).  Long sequences fall back to concretisation.
func (m *Machine) indexCells(cells []*Term, it *Term, what string, fr *frame) *Term {
	n := len(cells)
	if it.IsConst() || n == 0 || n > 256 {
		i := int(int64(m.concretize(it, what)))
		if i < 0 || i >= n {
			m.end("gopanic", fmt.Sprintf("%s %d out of range [%d] in %s", what, i, n, fr.fn))
		}
		return cells[i]
	}
	inb := m.tt.Bool(true)
	if uint64(n) <= maxU(it) {
		inb = m.tt.Cmp("bvult", it, m.tt.Const(it.w, uint64(n)))
	}
	if !m.branch(inb) {
		m.end("gopanic", fmt.Sprintf("%s out of range [%d] in %s", what, n, fr.fn))
	}
	if r := m.mapLeaves(cells, it, 0); r != nil {
		return r
	}
	acc := cells[n-1]
	for i := n - 2; i >= 0; i-- {
		acc = m.tt.Ite(m.tt.Cmp("=", it, m.tt.Const(it.w, uint64(i))), cells[i], acc)
	}
	return m.collapseIdentity(acc)
}

// mapLeaves pushes a table lookup through an index that is an ite-tree with constant leaves (possibly
// under zero-extension): table[ite(c,a,b)] = ite(c, table[a], table[b]).  Returns nil when the index has
// another shape or the tree is large.
func (m *Machine) mapLeaves(cells []*Term, it *Term, depth int) *Term {
	if depth > 300 {
		return nil
	}
	switch it.op {
	case "const":
		if it.val < uint64(len(cells)) {
			return cells[it.val]
		}
		return nil
	case "zext":
		return m.mapLeaves(cells, it.args[0], depth+1)
	case "ite":
		a := m.mapLeaves(cells, it.args[1], depth+1)
		if a == nil {
			return nil
		}
		b := m.mapLeaves(cells, it.args[2], depth+1)
		if b == nil {
			return nil
		}
		return m.collapseIdentity(m.tt.Ite(it.args[0], a, b))
	}
	return nil
}

// collapseIdentity recognises ite(x=0,0, ite(x=1,1, ... ite(x=k-1,k-1, k))) (a chain that maps x to itself
// on 0..k with x known to be <= k) and returns x (resized).
func (m *Machine) collapseIdentity(t *Term) *Term {
	if t.op != "ite" {
		return t
	}
	var x *Term
	cur := t
	seen := map[uint64]bool{}
	n := 0
	for cur.op == "ite" {
		c := cur.args[0]
		if c.op != "=" {
			return t
		}
		var v, k *Term
		if c.args[0].IsConst() {
			k, v = c.args[0], c.args[1]
		} else if c.args[1].IsConst() {
			k, v = c.args[1], c.args[0]
		} else {
			return t
		}
		if x == nil {
			x = v
		} else if x != v {
			return t
		}
		if !cur.args[1].IsConst() || cur.args[1].val != k.val {
			return t
		}
		seen[k.val] = true
		cur = cur.args[2]
		n++
		if n > 300 {
			return t
		}
	}
	if !cur.IsConst() || x == nil {
		return t
	}
	seen[cur.val] = true
	// every value x can take has to be covered
	mx := maxU(x)
	if mx > 300 {
		return t
	}
	for v := uint64(0); v <= mx; v++ {
		if !seen[v] {
			return t
		}
	}
	if t.w == x.w {
		return x
	}
	if t.w > x.w {
		return m.tt.Zext(x, t.w)
	}
	return m.tt.Extract(x, t.w-1, 0)
}

// decodeRune decodes one UTF-8 sequence from (possibly symbolic) cells exactly as the Go
// runtime does, forking on the byte classes.  Returns the rune (32-bit term) and its width.
func (m *Machine) decodeRune(cells []*Term) (*Term, int) {
	tt := m.tt
	c0 := cells[0]
	k8 := func(v uint64) *Term { return tt.Const(8, v) }
	in := func(c *Term, lo, hi uint64) *Term {
		return tt.And(tt.Cmp("bvule", k8(lo), c), tt.Cmp("bvule", c, k8(hi)))
	}
	if m.branch(tt.Cmp("bvult", c0, k8(0x80))) {
		return tt.Zext(c0, 32), 1
	}
	bad := tt.Const(32, 0xFFFD)
	z := func(c *Term, maskv uint64, sh uint64) *Term {
		return tt.Bin("bvshl", tt.Zext(tt.Bin("bvand", c, k8(maskv)), 32), tt.Const(32, sh))
	}
	if len(cells) >= 2 && m.branch(tt.And(in(c0, 0xC2, 0xDF), in(cells[1], 0x80, 0xBF))) {
		return tt.Bin("bvor", z(c0, 0x1F, 6), z(cells[1], 0x3F, 0)), 2
	}
	if len(cells) >= 3 {
		c1ok := tt.Ite(tt.Cmp("=", c0, k8(0xE0)), in(cells[1], 0xA0, 0xBF),
			tt.Ite(tt.Cmp("=", c0, k8(0xED)), in(cells[1], 0x80, 0x9F), in(cells[1], 0x80, 0xBF)))
		if m.branch(tt.And(tt.And(in(c0, 0xE0, 0xEF), c1ok), in(cells[2], 0x80, 0xBF))) {
			return tt.Bin("bvor", tt.Bin("bvor", z(c0, 0x0F, 12), z(cells[1], 0x3F, 6)), z(cells[2], 0x3F, 0)), 3
		}
	}
	if len(cells) >= 4 {
		c1ok := tt.Ite(tt.Cmp("=", c0, k8(0xF0)), in(cells[1], 0x90, 0xBF),
			tt.Ite(tt.Cmp("=", c0, k8(0xF4)), in(cells[1], 0x80, 0x8F), in(cells[1], 0x80, 0xBF)))
		ok := tt.And(tt.And(in(c0, 0xF0, 0xF4), c1ok), tt.And(in(cells[2], 0x80, 0xBF), in(cells[3], 0x80, 0xBF)))
		if m.branch(ok) {
			return tt.Bin("bvor", tt.Bin("bvor", z(c0, 0x07, 18), z(cells[1], 0x3F, 12)),
				tt.Bin("bvor", z(cells[2], 0x3F, 6), z(cells[3], 0x3F, 0))), 4
		}
	}
	return bad, 1
}

// encodeRune is string(rune): forks on the encoded length.
func (m *Machine) encodeRune(r *Term) Str {
	tt := m.tt
	k := func(v uint64) *Term { return tt.Const(32, v) }
	b := func(t *Term) *Term { return tt.Extract(t, 7, 0) }
	sh := func(t *Term, n uint64) *Term { return tt.Bin("bvlshr", t, k(n)) }
	cont := func(t *Term) *Term { return b(tt.Bin("bvor", tt.Bin("bvand", t, k(0x3F)), k(0x80))) }
	// invalid runes (surrogates, > 0x10FFFF, negative) become U+FFFD
	valid := tt.And(tt.Cmp("bvule", r, k(0x10FFFF)), tt.Not(tt.And(tt.Cmp("bvule", k(0xD800), r), tt.Cmp("bvule", r, k(0xDFFF)))))
	if !m.branch(valid) {
		return Str{[]*Term{tt.Const(8, 0xEF), tt.Const(8, 0xBF), tt.Const(8, 0xBD)}}
	}
	if m.branch(tt.Cmp("bvult", r, k(0x80))) {
		return Str{[]*Term{b(r)}}
	}
	if m.branch(tt.Cmp("bvult", r, k(0x800))) {
		return Str{[]*Term{b(tt.Bin("bvor", sh(r, 6), k(0xC0))), cont(r)}}
	}
	if m.branch(tt.Cmp("bvult", r, k(0x10000))) {
		return Str{[]*Term{b(tt.Bin("bvor", sh(r, 12), k(0xE0))), cont(sh(r, 6)), cont(r)}}
	}
	return Str{[]*Term{b(tt.Bin("bvor", sh(r, 18), k(0xF0))), cont(sh(r, 12)), cont(sh(r, 6)), cont(r)}}
}

func (m *Machine) slice(in *ssa.Slice, fr *frame) Value {
	x := m.eval(in.X, fr)
	bound := func(v ssa.Value, def int) int {
		if v == nil {
			return def
		}
		return int(int64(m.concretize(m.term(m.eval(v, fr)), "slice bound")))
	}
	switch a := x.(type) {
	case Str:
		lo, hi := bound(in.Low, 0), bound(in.High, len(a.cells))
		if lo < 0 || hi < lo || hi > len(a.cells) {
			m.end("gopanic", fmt.Sprintf("string slice bounds [%d:%d] len %d in %s", lo, hi, len(a.cells), fr.fn))
		}
		return Str{a.cells[lo:hi]}
	case Slice:
		lo, hi := bound(in.Low, 0), bound(in.High, a.len)
		mx := bound(in.Max, a.cap)
		if lo < 0 || hi < lo || mx < hi || mx > a.cap {
			m.end("gopanic", fmt.Sprintf("slice bounds [%d:%d:%d] cap %d in %s", lo, hi, mx, a.cap, fr.fn))
		}
		if a.node == nil {
			return Slice{}
		}
		return Slice{a.node, a.off + lo, hi - lo, mx - lo}
	case Ptr: // pointer to array
		if a.isNil() {
			m.end("gopanic", "slice of nil array pointer in "+fr.fn.String())
		}
		arr := a.node.elems[a.idx].(*Node)
		lo, hi := bound(in.Low, 0), bound(in.High, len(arr.elems))
		mx := bound(in.Max, len(arr.elems))
		if lo < 0 || hi < lo || mx < hi || mx > len(arr.elems) {
			m.end("gopanic", fmt.Sprintf("slice bounds [%d:%d:%d] array %d in %s", lo, hi, mx, len(arr.elems), fr.fn))
		}
		return Slice{arr, lo, hi - lo, mx - lo}
	}
	m.end("unsupported", fmt.Sprintf("slice of %T", x))
	return nil
}

func (m *Machine) convert(x Value, from, to types.Type) Value {
	fw, tw := width(from), width(to)
	if fw > 0 && tw > 0 {
		t := m.term(x)
		if tw <= fw {
			return m.tt.Extract(t, tw-1, 0)
		}
		if isSigned(from) {
			return m.tt.Sext(t, tw)
		}
		return m.tt.Zext(t, tw)
	}
	if isString(to) {
		switch a := x.(type) {
		case Slice:
			if sl, ok := from.Underlying().(*types.Slice); ok && width(sl.Elem()) == 32 {
				// string([]rune): every rune is encoded
				var cells []*Term
				for i := 0; i < a.len; i++ {
					cells = append(cells, m.encodeRune(m.term(a.node.elems[a.off+i])).cells...)
				}
				return Str{cells}
			}
			cells := make([]*Term, a.len)
			for i := range cells {
				cells[i] = m.term(a.node.elems[a.off+i])
			}
			return Str{cells}
		case Str:
			return a
		case *Term: // string(rune) / string(byte)
			r := a
			if r.w < 32 {
				if isSigned(from) {
					r = m.tt.Sext(r, 32)
				} else {
					r = m.tt.Zext(r, 32)
				}
			} else if r.w > 32 {
				// out-of-range values are invalid runes
				hi := m.tt.Extract(r, 63, 32)
				if !m.branch(m.tt.Cmp("=", hi, m.tt.Const(32, 0))) {
					return Str{[]*Term{m.tt.Const(8, 0xEF), m.tt.Const(8, 0xBF), m.tt.Const(8, 0xBD)}}
				}
				r = m.tt.Extract(r, 31, 0)
			}
			return m.encodeRune(r)
		}
	}
	if tsl, ok := to.Underlying().(*types.Slice); ok {
		if s, ok := x.(Str); ok && width(tsl.Elem()) == 32 {
			// []rune(string): decoded the way the runtime does (forks on the byte classes)
			var rs []*Term
			for i := 0; i < len(s.cells); {
				r, w := m.decodeRune(s.cells[i:])
				rs = append(rs, r)
				i += w
			}
			n := m.newNode(len(rs))
			for i, r := range rs {
				n.elems[i] = r
			}
			return Slice{n, 0, len(rs), len(rs)}
		}
		if s, ok := x.(Str); ok {
			n := m.newNode(len(s.cells))
			for i, c := range s.cells {
				n.elems[i] = c
			}
			return Slice{n, 0, len(s.cells), len(s.cells)}
		}
		return x
	}
	if _, ok := to.Underlying().(*types.Pointer); ok {
		return x
	}
	m.end("unsupported", fmt.Sprintf("convert %v -> %v", from, to))
	return nil
}

func (m *Machine) strEq(a, b Str) *Term {
	if len(a.cells) != len(b.cells) {
		return m.tt.Bool(false)
	}
	r := m.tt.Bool(true)
	for i := range a.cells {
		r = m.tt.And(r, m.tt.Cmp("=", a.cells[i], b.cells[i]))
	}
	return r
}

func (m *Machine) strLess(a, b Str) *Term {
	// lexicographic a < b
	n := len(a.cells)
	if len(b.cells) < n {
		n = len(b.cells)
	}
	res := m.tt.Bool(len(a.cells) < len(b.cells))
	for i := n - 1; i >= 0; i-- {
		lt := m.tt.Cmp("bvult", a.cells[i], b.cells[i])
		eq := m.tt.Cmp("=", a.cells[i], b.cells[i])
		res = m.tt.Or(lt, m.tt.And(eq, res))
	}
	return res
}

func (m *Machine) valEq(x, y Value) *Term {
	switch a := x.(type) {
	case *Term:
		return m.tt.Cmp("=", a, m.term(y))
	case Str:
		return m.strEq(a, y.(Str))
	case Ptr:
		b := y.(Ptr)
		return m.tt.Bool(a.node == b.node && a.idx == b.idx)
	case Slice: // only comparison with nil is legal
		b := y.(Slice)
		return m.tt.Bool(a.node == nil && b.node == nil)
	case *MapObj:
		return m.tt.Bool(a == nil && y.(*MapObj) == nil)
	case *Closure:
		return m.tt.Bool(a == nil && y.(*Closure) == nil)
	case Iface:
		b := y.(Iface)
		if a.typ == nil || b.typ == nil {
			return m.tt.Bool(a.typ == nil && b.typ == nil)
		}
		if ea, ok := a.val.(*ErrV); ok {
			eb, ok2 := b.val.(*ErrV)
			return m.tt.Bool(ok2 && ea == eb)
		}
		if !types.Identical(a.typ, b.typ) {
			return m.tt.Bool(false)
		}
		return m.valEq(a.val, b.val)
	case *Node:
		b := y.(*Node)
		r := m.tt.Bool(true)
		for i := range a.elems {
			r = m.tt.And(r, m.valEq(a.elems[i], b.elems[i]))
		}
		return r
	}
	m.end("unsupported", fmt.Sprintf("equality on %T", x))
	return nil
}

func (m *Machine) binop(op token.Token, x, y Value, xt, yt types.Type) Value {
	if op == token.EQL {
		return m.valEq(x, y)
	}
	if op == token.NEQ {
		return m.tt.Not(m.valEq(x, y))
	}
	if sx, ok := x.(Str); ok {
		sy := y.(Str)
		switch op {
		case token.ADD:
			return Str{append(append([]*Term{}, sx.cells...), sy.cells...)}
		case token.LSS:
			return m.strLess(sx, sy)
		case token.GTR:
			return m.strLess(sy, sx)
		case token.LEQ:
			return m.tt.Not(m.strLess(sy, sx))
		case token.GEQ:
			return m.tt.Not(m.strLess(sx, sy))
		}
	}
	a, b := m.term(x), m.term(y)
	signed := isSigned(xt)
	if a.w == 0 {
		switch op {
		case token.AND, token.LAND:
			return m.tt.And(a, b)
		case token.OR, token.LOR:
			return m.tt.Or(a, b)
		}
	}
	switch op {
	case token.SHL, token.SHR:
		// bring shift count to operand width (saturating)
		if b.w != a.w {
			if b.w > a.w {
				big := m.tt.Cmp("bvult", m.tt.Const(b.w, uint64(a.w)), b)
				bb := m.tt.Extract(b, a.w-1, 0)
				b = m.tt.Ite(big, m.tt.Const(a.w, uint64(a.w)), bb)
			} else {
				b = m.tt.Zext(b, a.w)
			}
		}
		if op == token.SHL {
			return m.tt.Bin("bvshl", a, b)
		}
		if signed {
			return m.tt.Bin("bvashr", a, b)
		}
		return m.tt.Bin("bvlshr", a, b)
	case token.ADD:
		return m.tt.Bin("bvadd", a, b)
	case token.SUB:
		return m.tt.Bin("bvsub", a, b)
	case token.MUL:
		return m.tt.Bin("bvmul", a, b)
	case token.QUO, token.REM:
		if m.branch(m.tt.Cmp("=", b, m.tt.Const(b.w, 0))) {
			m.end("gopanic", "integer divide by zero")
		}
		o := map[[2]bool]string{{true, true}: "bvsdiv", {true, false}: "bvudiv", {false, true}: "bvsrem", {false, false}: "bvurem"}[[2]bool{op == token.QUO, signed}]
		return m.tt.Bin(o, a, b)
	case token.AND:
		return m.tt.Bin("bvand", a, b)
	case token.OR:
		return m.tt.Bin("bvor", a, b)
	case token.XOR:
		return m.tt.Bin("bvxor", a, b)
	case token.AND_NOT:
		return m.tt.Bin("bvand", a, m.tt.BvNot(b))
	case token.LSS:
		if signed {
			return m.tt.Cmp("bvslt", a, b)
		}
		return m.tt.Cmp("bvult", a, b)
	case token.LEQ:
		if signed {
			return m.tt.Cmp("bvsle", a, b)
		}
		return m.tt.Cmp("bvule", a, b)
	case token.GTR:
		if signed {
			return m.tt.Cmp("bvslt", b, a)
		}
		return m.tt.Cmp("bvult", b, a)
	case token.GEQ:
		if signed {
			return m.tt.Cmp("bvsle", b, a)
		}
		return m.tt.Cmp("bvule", b, a)
	}
	m.end("unsupported", "binop "+op.String())
	return nil
}

// ---------- maps ----------

func (m *Machine) keyEq(a, b Value) *Term { return m.valEq(a, b) }

func (m *Machine) mapUpdate(mp *MapObj, k, v Value, fn *ssa.Function) {
	if mp == nil {
		m.end("gopanic", "assignment to entry in nil map in "+fn.String())
	}
	if mp.opaque {
		return
	}
	m.noteWriteMap(mp, "map update in "+fn.String())
	for i, ek := range mp.keys {
		if m.branch(m.keyEq(ek, k)) {
			mp.vals[i] = m.copyVal(v)
			return
		}
	}
	mp.keys = append(mp.keys, k)
	mp.vals = append(mp.vals, m.copyVal(v))
}

// mergeVals builds ite(c, a, b) over scalars / aggregates.
func (m *Machine) mergeVals(c *Term, a, b Value) Value {
	switch x := a.(type) {
	case *Term:
		return m.tt.Ite(c, x, m.term(b))
	case *Node:
		y := b.(*Node)
		n := m.newNode(len(x.elems))
		for i := range x.elems {
			n.elems[i] = m.mergeVals(c, x.elems[i], y.elems[i])
		}
		return n
	case Str:
		y := b.(Str)
		if len(x.cells) == len(y.cells) {
			cells := make([]*Term, len(x.cells))
			for i := range cells {
				cells[i] = m.tt.Ite(c, x.cells[i], y.cells[i])
			}
			return Str{cells}
		}
	}
	// not mergeable: fork
	if m.branch(c) {
		return a
	}
	return b
}

func (m *Machine) lookup(in *ssa.Lookup, fr *frame) Value {
	x := m.eval(in.X, fr)
	k := m.eval(in.Index, fr)
	if s, ok := x.(Str); ok {
		return m.indexCells(s.cells, m.term(k), "string index", fr)
	}
	mp := x.(*MapObj)
	vt := in.X.Type().Underlying().(*types.Map).Elem()
	val := m.zero(vt)
	found := m.tt.Bool(false)
	if mp != nil {
		// ite-chain from last to first so that the first matching key wins
		for i := len(mp.keys) - 1; i >= 0; i-- {
			eq := m.keyEq(mp.keys[i], k)
			val = m.mergeVals(eq, m.copyVal(mp.vals[i]), val)
			found = m.tt.Or(eq, found)
		}
	}
	if in.CommaOk {
		return Tuple{val, found}
	}
	return val
}

// ---------- calls ----------

func (m *Machine) doCall(in *ssa.Call, fr *frame) Value {
	c := in.Call
	args := make([]Value, 0, len(c.Args)+1)
	if c.IsInvoke() {
		recv := m.eval(c.Value, fr).(Iface)
		if recv.typ == nil {
			m.end("gopanic", "method call on nil interface in "+fr.fn.String())
		}
		if e, ok := recv.val.(*ErrV); ok {
			if c.Method.Name() == "Error" {
				return m.strConst(e.msg)
			}
			m.end("unsupported", "method "+c.Method.Name()+" on stub error")
		}
		if sv, ok := recv.val.(*StubVerifier); ok {
			var a []Value
			for _, x := range c.Args {
				a = append(a, m.eval(x, fr))
			}
			return m.verifierInvoke(sv, c.Method.Name(), a)
		}
		if sh, ok := recv.val.(*StubHasher); ok {
			var a []Value
			for _, x := range c.Args {
				a = append(a, m.eval(x, fr))
			}
			return m.hasherInvoke(sh, c.Method.Name(), a)
		}
		if _, ok := recv.val.(Opaque); ok {
			m.end("unsupported", "invoke on opaque value: "+c.Method.Name())
		}
		sel := m.prog.MethodSets.MethodSet(recv.typ).Lookup(c.Method.Pkg(), c.Method.Name())
		if sel == nil {
			m.end("unsupported", fmt.Sprintf("no method %s on %v", c.Method.Name(), recv.typ))
		}
		fn := m.prog.MethodValue(sel)
		args = append(args, recv.val)
		for _, a := range c.Args {
			args = append(args, m.eval(a, fr))
		}
		return m.call(fn, args, nil)
	}
	for _, a := range c.Args {
		args = append(args, m.eval(a, fr))
	}
	switch f := c.Value.(type) {
	case *ssa.Builtin:
		return m.builtin(f, args, c.Args, fr)
	case *ssa.Function:
		return m.call(f, args, nil)
	}
	cl, ok := m.eval(c.Value, fr).(*Closure)
	if !ok || cl == nil {
		m.end("gopanic", "call of nil func in "+fr.fn.String())
	}
	return m.call(cl.fn, args, cl.env)
}

func (m *Machine) builtin(b *ssa.Builtin, args []Value, raw []ssa.Value, fr *frame) Value {
	switch b.Name() {
	case "len":
		switch a := args[0].(type) {
		case Slice:
			return m.tt.Const(64, uint64(a.len))
		case Str:
			return m.tt.Const(64, uint64(len(a.cells)))
		case *MapObj:
			if a == nil {
				return m.tt.Const(64, 0)
			}
			return m.tt.Const(64, uint64(len(a.keys)))
		case *Node:
			return m.tt.Const(64, uint64(len(a.elems)))
		}
	case "cap":
		if a, ok := args[0].(Slice); ok {
			return m.tt.Const(64, uint64(a.cap))
		}
	case "copy":
		dst := args[0].(Slice)
		var src []Value
		switch s := args[1].(type) {
		case Slice:
			for i := 0; i < s.len; i++ {
				src = append(src, s.node.elems[s.off+i])
			}
		case Str:
			for _, c := range s.cells {
				src = append(src, c)
			}
		}
		n := len(src)
		if dst.len < n {
			n = dst.len
		}
		if n > 0 {
			m.noteWrite(dst.node, "copy in "+fr.fn.String())
		}
		for i := 0; i < n; i++ {
			m.assignInto(dst.node, dst.off+i, src[i])
		}
		return m.tt.Const(64, uint64(n))
	case "append":
		s := args[0].(Slice)
		var add []Value
		switch a := args[1].(type) {
		case Slice:
			for i := 0; i < a.len; i++ {
				add = append(add, a.node.elems[a.off+i])
			}
		case Str:
			for _, c := range a.cells {
				add = append(add, c)
			}
		}
		if len(add) == 0 {
			return s
		}
		if s.node != nil && s.len+len(add) <= s.cap {
			m.noteWrite(s.node, "in-place append in "+fr.fn.String())
			for i, v := range add {
				m.assignInto(s.node, s.off+s.len+i, v)
			}
			return Slice{s.node, s.off, s.len + len(add), s.cap}
		}
		nl := s.len + len(add)
		nc := nl
		if m.hr.rtgrow {
			// "runtime" growth policy: the capacity runtime.growslice of go1.24 (amd64) gives, so that code whose
			// behaviour depends on spare capacity (buffered readers) takes the path it takes natively
			var et types.Type
			if st, ok := raw[0].Type().Underlying().(*types.Slice); ok {
				et = st.Elem()
			}
			nc = runtimeGrowCap(nl, s.cap, et)
		}
		if m.hr.roomy {
			// "roomy" growth policy: spare capacity after growth, as the runtime usually leaves
			nc = 2 * s.cap
			if nc < nl {
				nc = nl
			}
			nc = (nc + 7) &^ 7
		}
		n := m.newNode(nc)
		for i := 0; i < s.len; i++ {
			n.elems[i] = m.copyVal(s.node.elems[s.off+i])
		}
		for i, v := range add {
			n.elems[s.len+i] = m.copyVal(v)
		}
		if nc > nl {
			var zt types.Type
			if st, ok := raw[0].Type().Underlying().(*types.Slice); ok {
				zt = st.Elem()
			}
			for i := nl; i < nc; i++ {
				if zt != nil {
					n.elems[i] = m.zero(zt)
				}
			}
		}
		return Slice{n, 0, nl, nc}
	case "ssa:wrapnilchk":
		if p, ok := args[0].(Ptr); ok && p.isNil() {
			m.end("gopanic", "value method called through nil pointer in "+fr.fn.String())
		}
		return args[0]
	case "recover":
		return Iface{}
	case "delete":
		mp := args[0].(*MapObj)
		if mp == nil {
			return nil
		}
		m.noteWriteMap(mp, "delete in "+fr.fn.String())
		for i := 0; i < len(mp.keys); i++ {
			if m.branch(m.keyEq(mp.keys[i], args[1])) {
				mp.keys = append(append([]Value{}, mp.keys[:i]...), mp.keys[i+1:]...)
				mp.vals = append(append([]Value{}, mp.vals[:i]...), mp.vals[i+1:]...)
				break
			}
		}
		return nil
	case "min", "max":
		acc := m.term(args[0])
		signed := isSigned(raw[0].Type())
		for _, a := range args[1:] {
			t := m.term(a)
			var lt *Term
			if signed {
				lt = m.tt.Cmp("bvslt", t, acc)
			} else {
				lt = m.tt.Cmp("bvult", t, acc)
			}
			if b.Name() == "max" {
				lt = m.tt.Not(m.tt.Or(lt, m.tt.Cmp("=", t, acc)))
			}
			acc = m.tt.Ite(lt, t, acc)
		}
		return acc
	case "print", "println":
		return nil
	case "String": // unsafe.String(ptr, len)
		p, ok := args[0].(Ptr)
		n := int(int64(m.concretize(m.term(args[1]), "unsafe.String length")))
		if n == 0 {
			return Str{}
		}
		if !ok || p.isNil() || p.idx+n > len(p.node.elems) {
			m.end("unsupported", "unsafe.String on an object the executor cannot view as bytes")
		}
		cells := make([]*Term, n)
		for i := 0; i < n; i++ {
			cells[i] = m.term(p.node.elems[p.idx+i])
		}
		return Str{cells}
	case "clear":
		switch a := args[0].(type) {
		case Slice:
			if a.len > 0 {
				m.noteWrite(a.node, "clear in "+fr.fn.String())
			}
			var zt types.Type
			if st, ok := raw[0].Type().Underlying().(*types.Slice); ok {
				zt = st.Elem()
			}
			for i := 0; i < a.len; i++ {
				m.assignInto(a.node, a.off+i, m.zero(zt))
			}
		case *MapObj:
			if a != nil {
				m.noteWriteMap(a, "clear in "+fr.fn.String())
				a.keys, a.vals = nil, nil
			}
		}
		return nil
	}
	m.end("unsupported", "builtin "+b.Name())
	return nil
}

var rtSizeClasses = []int{0, 8, 16, 24, 32, 48, 64, 80, 96, 112, 128, 144, 160, 176, 192, 208, 224, 240, 256, 288, 320, 352, 384, 416, 448, 480, 512, 576, 640, 704, 768, 896, 1024, 1152, 1280, 1408, 1536, 1792, 2048, 2304, 2688, 3072, 3200, 3456, 4096, 4864, 5376, 6144, 6528, 6784, 6912, 8192, 9472, 9728, 10240, 10880, 12288, 13568, 14336, 16384, 18432, 19072, 20480, 21760, 24576, 27264, 28672, 32768}

func typeHasPointers(t types.Type) bool {
	switch u := t.Underlying().(type) {
	case *types.Basic:
		return u.Kind() == types.String || u.Kind() == types.UnsafePointer
	case *types.Array:
		return typeHasPointers(u.Elem())
	case *types.Struct:
		for i := 0; i < u.NumFields(); i++ {
			if typeHasPointers(u.Field(i).Type()) {
				return true
			}
		}
		return false
	}
	return true
}

// runtimeGrowCap mirrors runtime.growslice (nextslicecap + roundupsize) of go1.24 on amd64.
func runtimeGrowCap(newLen, oldCap int, et types.Type) int {
	esz := 1
	noscan := true
	if et != nil {
		esz = int(types.SizesFor("gc", "amd64").Sizeof(et))
		noscan = !typeHasPointers(et)
	}
	if esz == 0 {
		return newLen
	}
	newcap := oldCap
	if dc := newcap + newcap; newLen > dc {
		newcap = newLen
	} else if oldCap < 256 {
		newcap = dc
	} else {
		for {
			newcap += (newcap + 3*256) >> 2
			if newcap >= newLen {
				break
			}
		}
	}
	size := newcap * esz
	req := size
	var mem int
	if req <= 32768-8 {
		if !noscan && req > 512 {
			req += 8
		}
		mem = -1
		for _, c := range rtSizeClasses {
			if c >= req {
				mem = c - (req - size)
				break
			}
		}
		if mem < 0 {
			mem = size
		}
	} else {
		mem = (req + 8191) &^ 8191
	}
	return mem / esz
}
