package main

import (
	"fmt"
	"strings"
)

// Term is a hash-consed bit-vector / boolean term. w==0 means Bool.
type Term struct {
	op   string
	w    int
	args []*Term
	val  uint64
	name string
	a, b int // extract hi/lo, or extension amount
	id   int
}

type TermTable struct {
	tab map[string]*Term
	n   int
}

func NewTermTable() *TermTable { return &TermTable{tab: map[string]*Term{}} }

func (tt *TermTable) mk(t Term) *Term {
	var sb strings.Builder
	fmt.Fprintf(&sb, "%s|%d|%d|%s|%d|%d", t.op, t.w, t.val, t.name, t.a, t.b)
	for _, a := range t.args {
		fmt.Fprintf(&sb, "|%d", a.id)
	}
	k := sb.String()
	if x, ok := tt.tab[k]; ok {
		return x
	}
	tt.n++
	nt := t
	nt.id = tt.n
	tt.tab[k] = &nt
	return &nt
}

func mask(w int) uint64 {
	if w >= 64 {
		return ^uint64(0)
	}
	return (uint64(1) << uint(w)) - 1
}

func (tt *TermTable) Const(w int, v uint64) *Term {
	return tt.mk(Term{op: "const", w: w, val: v & mask(w)})
}
func (tt *TermTable) Bool(b bool) *Term {
	v := uint64(0)
	if b {
		v = 1
	}
	return tt.mk(Term{op: "const", w: 0, val: v})
}
func (tt *TermTable) Var(w int, name string) *Term { return tt.mk(Term{op: "var", w: w, name: name}) }

func (t *Term) IsConst() bool { return t.op == "const" }
func (t *Term) IsTrue() bool  { return t.op == "const" && t.w == 0 && t.val == 1 }
func (t *Term) IsFalse() bool { return t.op == "const" && t.w == 0 && t.val == 0 }

func sext64(v uint64, w int) int64 {
	if w >= 64 {
		return int64(v)
	}
	if v&(1<<uint(w-1)) != 0 {
		return int64(v | ^mask(w))
	}
	return int64(v)
}

// Bin builds a bit-vector binary operation with constant folding and a few identities.
func (tt *TermTable) Bin(op string, x, y *Term) *Term {
	if x.w != y.w {
		panic(fmt.Sprintf("width mismatch %s %d %d", op, x.w, y.w))
	}
	w := x.w
	if x.IsConst() && y.IsConst() {
		a, b := x.val, y.val
		switch op {
		case "bvadd":
			return tt.Const(w, a+b)
		case "bvsub":
			return tt.Const(w, a-b)
		case "bvmul":
			return tt.Const(w, a*b)
		case "bvand":
			return tt.Const(w, a&b)
		case "bvor":
			return tt.Const(w, a|b)
		case "bvxor":
			return tt.Const(w, a^b)
		case "bvudiv":
			if b != 0 {
				return tt.Const(w, a/b)
			}
		case "bvurem":
			if b != 0 {
				return tt.Const(w, a%b)
			}
		case "bvsdiv":
			if b != 0 {
				return tt.Const(w, uint64(sext64(a, w)/sext64(b, w)))
			}
		case "bvsrem":
			if b != 0 {
				return tt.Const(w, uint64(sext64(a, w)%sext64(b, w)))
			}
		case "bvshl":
			if b >= uint64(w) {
				return tt.Const(w, 0)
			}
			return tt.Const(w, a<<b)
		case "bvlshr":
			if b >= uint64(w) {
				return tt.Const(w, 0)
			}
			return tt.Const(w, a>>b)
		case "bvashr":
			if b >= uint64(w) {
				b = uint64(w - 1)
			}
			return tt.Const(w, uint64(sext64(a, w)>>b))
		}
	}
	switch op {
	case "bvadd", "bvor", "bvxor":
		if x.IsConst() && x.val == 0 {
			return y
		}
		if y.IsConst() && y.val == 0 {
			return x
		}
	case "bvsub", "bvshl", "bvlshr", "bvashr":
		if y.IsConst() && y.val == 0 {
			return x
		}
	case "bvand":
		if x.IsConst() && x.val == 0 || y.IsConst() && y.val == 0 {
			return tt.Const(w, 0)
		}
		if y.IsConst() && y.val == mask(w) {
			return x
		}
		if x.IsConst() && x.val == mask(w) {
			return y
		}
	case "bvmul":
		if y.IsConst() && y.val == 1 {
			return x
		}
		if x.IsConst() && x.val == 1 {
			return y
		}
	}
	// (zext k a) << c | (zext k b)  patterns are left to the solver in the spike,
	// except the byte-reassembly rule below.
	if op == "bvor" {
		if r := tt.tryConcat(x, y); r != nil {
			return r
		}
		if r := tt.tryConcat(y, x); r != nil {
			return r
		}
	}
	return tt.mk(Term{op: op, w: w, args: []*Term{x, y}})
}

// tryConcat recognises  (shl (zext a) c) | (zext b)  with width(b) <= c  => zext(concat a b') .
func (tt *TermTable) tryConcat(hi, lo *Term) *Term {
	if hi.op != "bvshl" || !hi.args[1].IsConst() {
		return nil
	}
	c := int(hi.args[1].val)
	h := hi.args[0]
	if h.op != "zext" || lo.op != "zext" {
		return nil
	}
	hb, lb := h.args[0], lo.args[0]
	if lb.w > c || hb.w+c > hi.w {
		return nil
	}
	l := lb
	if lb.w < c {
		l = tt.Zext(lb, c)
	}
	cc := tt.Concat(hb, l)
	return tt.Zext(cc, hi.w)
}

func (tt *TermTable) Concat(hi, lo *Term) *Term {
	if hi.IsConst() && lo.IsConst() {
		return tt.Const(hi.w+lo.w, hi.val<<uint(lo.w)|lo.val)
	}
	// concat(extract[h:m+1] x, extract[m:l] x) = extract[h:l] x
	if hi.op == "extract" && lo.op == "extract" && hi.args[0] == lo.args[0] && hi.b == lo.a+1 {
		return tt.Extract(hi.args[0], hi.a, lo.b)
	}
	return tt.mk(Term{op: "concat", w: hi.w + lo.w, args: []*Term{hi, lo}})
}

func (tt *TermTable) Extract(x *Term, hi, lo int) *Term {
	if lo == 0 && hi == x.w-1 {
		return x
	}
	if x.IsConst() {
		return tt.Const(hi-lo+1, x.val>>uint(lo))
	}
	switch x.op {
	case "extract":
		return tt.Extract(x.args[0], hi+x.b, lo+x.b)
	case "concat":
		l := x.args[1]
		if hi < l.w {
			return tt.Extract(l, hi, lo)
		}
		if lo >= l.w {
			return tt.Extract(x.args[0], hi-l.w, lo-l.w)
		}
	case "zext":
		in := x.args[0]
		if hi < in.w {
			return tt.Extract(in, hi, lo)
		}
		if lo >= in.w {
			return tt.Const(hi-lo+1, 0)
		}
	case "bvlshr":
		// extract of (x >> c) with constant c and no bits shifted in from beyond
		if x.args[1].IsConst() {
			c := int(x.args[1].val)
			if hi+c < x.w {
				return tt.Extract(x.args[0], hi+c, lo+c)
			}
		}
	}
	return tt.mk(Term{op: "extract", w: hi - lo + 1, args: []*Term{x}, a: hi, b: lo})
}

func (tt *TermTable) Zext(x *Term, w int) *Term {
	if w == x.w {
		return x
	}
	if w < x.w {
		return tt.Extract(x, w-1, 0)
	}
	if x.IsConst() {
		return tt.Const(w, x.val)
	}
	if x.op == "zext" {
		return tt.Zext(x.args[0], w)
	}
	return tt.mk(Term{op: "zext", w: w, args: []*Term{x}, a: w - x.w})
}

func (tt *TermTable) Sext(x *Term, w int) *Term {
	if w == x.w {
		return x
	}
	if w < x.w {
		return tt.Extract(x, w-1, 0)
	}
	if x.IsConst() {
		return tt.Const(w, uint64(sext64(x.val, x.w)))
	}
	return tt.mk(Term{op: "sext", w: w, args: []*Term{x}, a: w - x.w})
}

func (tt *TermTable) BvNot(x *Term) *Term {
	if x.IsConst() {
		return tt.Const(x.w, ^x.val)
	}
	return tt.mk(Term{op: "bvnot", w: x.w, args: []*Term{x}})
}
func (tt *TermTable) BvNeg(x *Term) *Term {
	if x.IsConst() {
		return tt.Const(x.w, -x.val)
	}
	return tt.mk(Term{op: "bvneg", w: x.w, args: []*Term{x}})
}

// maxU returns a cheap upper bound on the unsigned value of x.
func maxU(x *Term) uint64 {
	switch x.op {
	case "const":
		return x.val
	case "zext":
		return maxU(x.args[0])
	case "bvand":
		a, b := maxU(x.args[0]), maxU(x.args[1])
		if a < b {
			return a
		}
		return b
	case "ite":
		a, b := maxU(x.args[1]), maxU(x.args[2])
		if a > b {
			return a
		}
		return b
	case "bvadd":
		a, b := maxU(x.args[0]), maxU(x.args[1])
		if a+b >= a && a+b <= mask(x.w) {
			return a + b
		}
	}
	return mask(x.w)
}

func (tt *TermTable) Cmp(op string, x, y *Term) *Term {
	if x.w != y.w {
		panic(fmt.Sprintf("cmp width mismatch %s %d %d", op, x.w, y.w))
	}
	if x.IsConst() && y.IsConst() {
		a, b := x.val, y.val
		sa, sb := sext64(a, x.w), sext64(b, x.w)
		var r bool
		switch op {
		case "=":
			r = a == b
		case "bvult":
			r = a < b
		case "bvule":
			r = a <= b
		case "bvslt":
			r = sa < sb
		case "bvsle":
			r = sa <= sb
		}
		return tt.Bool(r)
	}
	if op == "=" {
		if x == y {
			return tt.Bool(true)
		}
		if x.w == 0 { // boolean equality
			if y.IsConst() {
				if y.val == 1 {
					return x
				}
				return tt.Not(x)
			}
			if x.IsConst() {
				if x.val == 1 {
					return y
				}
				return tt.Not(y)
			}
		}
		if y.IsConst() && y.val > maxU(x) || x.IsConst() && x.val > maxU(y) {
			return tt.Bool(false)
		}
		if x.id > y.id {
			x, y = y, x
		}
	}
	if op == "bvult" && y.IsConst() && maxU(x) < y.val {
		return tt.Bool(true)
	}
	if op == "bvule" && y.IsConst() && maxU(x) <= y.val {
		return tt.Bool(true)
	}
	if op == "bvult" && x.IsConst() && x.val >= maxU(y) {
		return tt.Bool(false)
	}
	if (op == "bvslt" || op == "bvsle") && x.w > 1 {
		// both provably non-negative => unsigned comparison
		top := uint64(1) << uint(x.w-1)
		if maxU(x) < top && maxU(y) < top {
			if op == "bvslt" {
				return tt.Cmp("bvult", x, y)
			}
			return tt.Cmp("bvule", x, y)
		}
	}
	return tt.mk(Term{op: op, w: 0, args: []*Term{x, y}})
}

func (tt *TermTable) Not(x *Term) *Term {
	if x.IsConst() {
		return tt.Bool(x.val == 0)
	}
	if x.op == "not" {
		return x.args[0]
	}
	return tt.mk(Term{op: "not", w: 0, args: []*Term{x}})
}
func (tt *TermTable) And(x, y *Term) *Term {
	if x.IsFalse() || y.IsFalse() {
		return tt.Bool(false)
	}
	if x.IsTrue() {
		return y
	}
	if y.IsTrue() {
		return x
	}
	if x == y {
		return x
	}
	return tt.mk(Term{op: "and", w: 0, args: []*Term{x, y}})
}
func (tt *TermTable) Or(x, y *Term) *Term {
	if x.IsTrue() || y.IsTrue() {
		return tt.Bool(true)
	}
	if x.IsFalse() {
		return y
	}
	if y.IsFalse() {
		return x
	}
	if x == y {
		return x
	}
	return tt.mk(Term{op: "or", w: 0, args: []*Term{x, y}})
}
func (tt *TermTable) Ite(c, x, y *Term) *Term {
	if c.IsTrue() {
		return x
	}
	if c.IsFalse() {
		return y
	}
	if x == y {
		return x
	}
	if x.w == 0 && x.IsConst() && y.IsConst() {
		if x.val == 1 {
			return c
		}
		return tt.Not(c)
	}
	return tt.mk(Term{op: "ite", w: x.w, args: []*Term{c, x, y}})
}

// ---- SMT-LIB printing with per-scope definitions ----

func sortStr(w int) string {
	if w == 0 {
		return "Bool"
	}
	return fmt.Sprintf("(_ BitVec %d)", w)
}

func constStr(t *Term) string {
	if t.w == 0 {
		if t.val == 1 {
			return "true"
		}
		return "false"
	}
	if t.w%4 == 0 {
		return fmt.Sprintf("#x%0*x", t.w/4, t.val)
	}
	return fmt.Sprintf("#b%0*b", t.w, t.val)
}
