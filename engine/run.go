package main

import (
	"encoding/json"
	"fmt"
	"go/ast"
	"os"
	"os/exec"
	"path/filepath"
	"sort"
	"strconv"
	"strings"
	"sync"
	"time"

	"golang.org/x/tools/go/packages"
	"golang.org/x/tools/go/ssa"
)

// Worker owns one solver session and one term table (renewed per path).
type Worker struct {
	sol  *Solver
	tt   *TermTable
	sols map[string]*Solver // live sessions by kind ("z3", "cvc5"), started lazily
	log  *os.File
	st   *SolverStats
}

// use selects (and lazily starts) the live session of the given kind.
func (w *Worker) use(kind string) {
	if kind == "" {
		kind = "z3"
	}
	if w.sols[kind] == nil {
		if w.log != nil {
			w.sols[kind] = NewSolverKind(w.log, w.st, kind)
		} else {
			w.sols[kind] = NewSolverKind(nil, w.st, kind)
		}
	}
	w.sol = w.sols[kind]
}

type harnessSpec struct {
	name     string
	props    []string
	tier     string // "" or "thorough"
	fanout   int
	loopCap  int
	stepCap  int64
	pathCap  int
	policies []string
	witness  []string
	solver   string
	doc      string
}

// HarnessRun is one harness under one append policy.
type HarnessRun struct {
	run       *Run
	spec      *harnessSpec
	fn        *ssa.Function
	roomy     bool
	rtgrow    bool // append growth as runtime.growslice of go1.24/amd64
	fanoutCap int
	loopCap   int
	stepCap   int64

	mu           sync.Mutex
	paths        int
	completed    int
	vacuous      int
	panics       int
	unsupported  int
	budget       int
	inconclusive int
	asserts      int
	assertsSyn   int
	decisions    int64
	steps        int64
	loopMax      int
	funcs        map[string]bool
	covers       map[string]int
	expected     map[string]bool
	called       map[string]int
	findings     map[string]*finding
	unsupMsgs    map[string]int
	budgetMsgs   map[string]int
	assumed      int
	assumedMsgs  map[string]int
	passSamples  []sample
	pathCapHit   bool
	violPaths    int
	wall         time.Duration
}

type sample struct {
	Model    []drawVal  `json:"draws"`
	Trail    []uint64   `json:"-"`
	Observes []obsValue `json:"observes,omitempty"`
}

type obsValue struct {
	Label string   `json:"label"`
	V     []uint64 `json:"v"`
}

// finding groups violations with the same fingerprint.
type finding struct {
	Fingerprint string
	Kind        string // assert, panic, write
	Label       string
	Detail      string
	Count       int
	Models      [][]drawVal
	Extra       [][]drawVal `json:"-"`
	Replays     []string
	Status      string // reproduced, unconfirmed, known
	Realised    int
}

func (hr *HarnessRun) id() string {
	if hr.roomy {
		return hr.spec.name + "+roomy"
	}
	if hr.rtgrow && len(hr.spec.policies) > 1 {
		return hr.spec.name + "+runtime"
	}
	return hr.spec.name
}

func (hr *HarnessRun) noteFunc(fn *ssa.Function) {
	hr.mu.Lock()
	hr.funcs[fn.String()] = true
	hr.mu.Unlock()
}

type Run struct {
	prop       string
	thorough   bool
	seed       int64
	prog       *ssa.Program
	verifDir   string
	harnessDir string
	goBin      string
	stats      *SolverStats
	hruns      []*HarnessRun
	workers    int
	deadline   time.Time
	timedOut   bool
	passPerH   int
	dumpDir    string

	qmu      sync.Mutex
	queue    []workItem
	inflight int
	cond     *sync.Cond
}

type workItem struct {
	hr     *HarnessRun
	prefix []uint64
}

func parseSpecs(pkgs []*packages.Package) map[string]*harnessSpec {
	specs := map[string]*harnessSpec{}
	for _, p := range pkgs {
		for _, f := range p.Syntax {
			for _, d := range f.Decls {
				fd, ok := d.(*ast.FuncDecl)
				if !ok || fd.Recv != nil || !strings.HasPrefix(fd.Name.Name, "H_") {
					continue
				}
				sp := &harnessSpec{name: fd.Name.Name, fanout: 64, loopCap: 3000, stepCap: 20_000_000, pathCap: 200_000}
				// default property from the name: H_C01_xxx
				parts := strings.Split(fd.Name.Name, "_")
				if len(parts) >= 2 {
					sp.props = []string{parts[1]}
				}
				if fd.Doc != nil {
					for _, c := range fd.Doc.List {
						line := strings.TrimSpace(strings.TrimPrefix(c.Text, "//"))
						if !strings.HasPrefix(line, "verif:") {
							if sp.doc == "" {
								sp.doc = line
							}
							continue
						}
						fs := strings.Fields(strings.TrimPrefix(line, "verif:"))
						if len(fs) == 0 {
							continue
						}
						switch fs[0] {
						case "props":
							sp.props = fs[1:]
						case "tier":
							if len(fs) > 1 {
								sp.tier = fs[1]
							}
						case "fanout":
							sp.fanout, _ = strconv.Atoi(fs[1])
						case "loopcap":
							sp.loopCap, _ = strconv.Atoi(fs[1])
						case "steps":
							n, _ := strconv.ParseInt(fs[1], 10, 64)
							sp.stepCap = n
						case "pathcap":
							sp.pathCap, _ = strconv.Atoi(fs[1])
						case "policies":
							sp.policies = fs[1:]
						case "solver":
							if len(fs) > 1 {
								sp.solver = fs[1]
							}
						case "witness":
							sp.witness = append(sp.witness, fs[1:]...)
						}
					}
				}
				specs[sp.name] = sp
			}
		}
	}
	return specs
}

func (r *Run) push(items ...workItem) {
	r.qmu.Lock()
	r.queue = append(r.queue, items...)
	r.qmu.Unlock()
	r.cond.Broadcast()
}

// explore runs all harness runs to completion on r.workers workers.
func (r *Run) explore() {
	r.cond = sync.NewCond(&r.qmu)
	for _, hr := range r.hruns {
		r.queue = append(r.queue, workItem{hr, nil})
	}
	var wg sync.WaitGroup
	for i := 0; i < r.workers; i++ {
		wg.Add(1)
		go func(i int) {
			defer wg.Done()
			var logw *os.File
			if r.dumpDir != "" {
				logw, _ = os.Create(filepath.Join(r.dumpDir, fmt.Sprintf("worker%d.smt2", i)))
				defer logw.Close()
			}
			w := &Worker{sols: map[string]*Solver{}, log: logw, st: r.stats}
			defer func() {
				for _, s := range w.sols {
					s.Close()
				}
			}()
			for {
				r.qmu.Lock()
				for len(r.queue) == 0 && r.inflight > 0 {
					r.cond.Wait()
				}
				if len(r.queue) == 0 {
					r.qmu.Unlock()
					r.cond.Broadcast()
					return
				}
				it := r.queue[len(r.queue)-1]
				r.queue = r.queue[:len(r.queue)-1]
				r.inflight++
				r.qmu.Unlock()

				var more [][]uint64
				if time.Now().After(r.deadline) {
					r.timedOut = true
					it.hr.mu.Lock()
					it.hr.budget++
					it.hr.budgetMsgs["wall-clock deadline of the run reached; path not explored"]++
					it.hr.mu.Unlock()
				} else {
					more = r.runPath(w, it)
				}

				r.qmu.Lock()
				r.inflight--
				for _, p := range more {
					r.queue = append(r.queue, workItem{it.hr, p})
				}
				r.qmu.Unlock()
				r.cond.Broadcast()
			}
		}(i)
	}
	wg.Wait()
}

func (r *Run) runPath(w *Worker, it workItem) (more [][]uint64) {
	hr := it.hr
	hr.mu.Lock()
	if hr.paths >= hr.spec.pathCap {
		hr.pathCapHit = true
		hr.budget++
		hr.budgetMsgs["path cap reached"]++
		hr.mu.Unlock()
		return nil
	}
	hr.paths++
	hr.mu.Unlock()

	w.tt = NewTermTable()
	w.use(hr.spec.solver)
	w.sol.Reset()
	m := &Machine{w: w, hr: hr, prog: r.prog, tt: w.tt, prefix: it.prefix,
		globals: map[*ssa.Global]*Node{}, inited: map[*ssa.Package]bool{},
		covers: map[string]bool{}, called: map[string]bool{}, errType: errorType}
	w.sol.Push()
	base := w.sol.level
	kind, msg := "done", ""
	func() {
		defer func() {
			if rec := recover(); rec != nil {
				pe, ok := rec.(pathEnd)
				if !ok {
					pe = pathEnd{"unsupported", fmt.Sprintf("INTERNAL %v at %s", rec, m.curInstr)}
				}
				kind, msg = pe.kind, pe.msg
			}
		}()
		m.call(hr.fn, nil, nil)
	}()
	for w.sol.level > base {
		w.sol.Pop()
	}
	var panicModel []drawVal
	var passModel *sample
	site := ""
	var hangModel []drawVal
	hangSite := ""
	if kind == "budget" && strings.HasPrefix(msg, "loop cap") {
		hangSite = m.panicSiteFromStack()
		if mod, res := m.currentModel(); res == "sat" {
			hangModel = mod
		}
	}
	var writeModel []drawVal
	for _, e := range m.events {
		if e.kind == "write" && writeModel == nil && kind != "gopanic" {
			if mod, res := m.currentModel(); res == "sat" {
				writeModel = mod
			}
			break
		}
	}
	switch kind {
	case "gopanic":
		site = m.lastSite
		if mod, res := m.currentModel(); res == "sat" {
			panicModel = mod
		} else {
			m.inconclusive++
		}
	case "done":
		hr.mu.Lock()
		want := len(hr.passSamples) < r.passPerH
		hr.mu.Unlock()
		for _, e := range m.events {
			if e.kind == "assert" || e.kind == "inconclusive" {
				want = false // the path continued under an assumption the real code does not meet
			}
		}
		if m.called["time.Now"] && !m.nowObserved {
			// the path depends on the stubbed clock and the harness did not tie it to nd.NowUnix(): the native
			// run sees the real clock, so this path is no translator-validation sample
			want = false
		}
		if want {
			ts := m.flatDraws()
			nd := len(ts)
			for _, o := range m.observes {
				ts = append(ts, o.terms...)
			}
			if res, vals := w.sol.CheckModel(ts); res == "sat" {
				s := &sample{Trail: append([]uint64{}, m.trail...)}
				if nd > 0 {
					s.Model = m.modelFrom(vals[:nd])
				} else {
					s.Model = []drawVal{}
				}
				k := nd
				for _, o := range m.observes {
					ov := obsValue{Label: o.label, V: append([]uint64{}, vals[k:k+len(o.terms)]...)}
					k += len(o.terms)
					s.Observes = append(s.Observes, ov)
				}
				passModel = s
			}
		}
	}
	w.sol.Pop()

	hr.mu.Lock()
	defer hr.mu.Unlock()
	hr.steps += m.steps
	hr.decisions += int64(len(m.trail))
	hr.asserts += m.asserts
	hr.assertsSyn += m.assertsSyn
	hr.inconclusive += m.inconclusive
	if m.loopMax > hr.loopMax {
		hr.loopMax = m.loopMax
	}
	for c := range m.covers {
		hr.covers[c]++
	}
	for _, e := range m.expects {
		hr.expected[e] = true
	}
	for c := range m.called {
		hr.called[c]++
	}
	addFinding := func(kind, label, detail string, model []drawVal, realised ...[]drawVal) {
		fp := hr.id() + "/" + label
		f := hr.findings[fp]
		if f == nil {
			f = &finding{Fingerprint: fp, Kind: kind, Label: label, Detail: detail}
			hr.findings[fp] = f
		}
		f.Count++
		for _, rm := range realised {
			if rm != nil && f.Realised < 2 {
				// realised models go first: they are the ones the real primitives agree with
				f.Models = append([][]drawVal{rm}, f.Models...)
				f.Realised++
				if len(f.Models) > 4 {
					f.Models = f.Models[:4]
				}
			}
		}
		if model != nil && len(f.Models) < 3 {
			f.Models = append(f.Models, model)
		} else if model != nil && len(f.Extra) < 60 && (f.Count <= 24 || f.Count%9 == 0) {
			// further models of the same fingerprint: replayed only when none of the first ones reproduces (a
			// violation that natively shows on other inputs of the class, e.g. behaviour depending on the runtime's
			// append growth or map order)
			f.Extra = append(f.Extra, model)
		}
	}
	violated := false
	for _, e := range m.events {
		if e.kind == "assert" {
			violated = true
		}
	}
	if violated {
		hr.violPaths++
	}
	for _, e := range m.events {
		switch e.kind {
		case "assert":
			addFinding("assert", e.label, e.detail, e.model, e.realised)
		case "write":
			addFinding("write", e.label+" in "+e.detail, e.detail, writeModel)
		}
	}
	switch kind {
	case "done":
		hr.completed++
		if passModel != nil && len(hr.passSamples) < r.passPerH {
			hr.passSamples = append(hr.passSamples, *passModel)
		}
	case "vacuous":
		hr.vacuous++
	case "assumed":
		hr.assumed++
		hr.assumedMsgs[msg]++
	case "gopanic":
		hr.panics++
		lbl := "panic@" + site
		if m.context != "" {
			lbl += "#" + m.context
		}
		addFinding("panic", lbl, msg, panicModel)
	case "budget":
		hr.budget++
		hr.budgetMsgs[msg]++
		if hangModel != nil {
			// a loop that ran past its cap is a non-termination candidate: decided by the native replay
			// under a wall-clock deadline (reproduced only if the real code does not return)
			lbl := "hang@" + hangSite
			if m.context != "" {
				lbl += "#" + m.context
			}
			addFinding("panic", lbl, msg, hangModel)
		}
	default:
		hr.unsupported++
		hr.unsupMsgs[kind+": "+msg]++
	}
	if hr.violPaths > 400 {
		// the verdict of this harness is settled (violations with models are recorded); the rest of its path
		// tree is not explored, which keeps a badly broken tree from costing the whole time budget
		if len(m.newWork) > 0 {
			hr.budgetMsgs["exploration stopped after 400 violating paths"] += len(m.newWork)
		}
		return nil
	}
	return m.newWork
}

// ---------- replay files ----------

type replayFile struct {
	Property string     `json:"property"`
	Harness  string     `json:"harness"`
	Kind     string     `json:"kind"` // assert, panic, pass
	Label    string     `json:"label"`
	Detail   string     `json:"detail,omitempty"`
	Thorough bool       `json:"thorough"`
	Roomy    bool       `json:"roomy"`
	Draws    []drawVal  `json:"draws"`
	Observes []obsValue `json:"observes,omitempty"`
}

func (r *Run) writeReplay(dir string, n int, rf replayFile) string {
	p := filepath.Join(dir, fmt.Sprintf("%s-%04d-%s.json", rf.Harness, n, rf.Kind))
	b, _ := json.Marshal(rf)
	os.WriteFile(p, b, 0o644)
	return p
}

// nativeReplay runs the harness module's TestReplay over all files in dir and returns
// file -> (status, detail).
func (r *Run) nativeReplay(dir string) (map[string][2]string, string, error) {
	cmd := exec.Command(r.goBin, "test", "-count=1", "-vet=off", "-v", "-timeout", "20m", "-run", "^TestReplay$", "./c", "-args", "-replay", dir)
	cmd.Dir = r.harnessDir
	cmd.Env = append(os.Environ(), "GOFLAGS=-mod=mod", "GOPROXY=off", "GOTOOLCHAIN=local")
	out, err := cmd.CombinedOutput()
	res := map[string][2]string{}
	for _, line := range strings.Split(string(out), "\n") {
		line = strings.TrimSpace(line)
		if !strings.HasPrefix(line, "REPLAY ") {
			continue
		}
		fs := strings.SplitN(line, " ", 4)
		if len(fs) < 3 {
			continue
		}
		d := ""
		if len(fs) == 4 {
			d = fs[3]
		}
		res[fs[1]] = [2]string{fs[2], d}
	}
	return res, string(out), err
}

// ---------- known findings ----------

type knownFinding struct {
	Property    string `json:"property"`
	Fingerprint string `json:"fingerprint"`
	What        string `json:"what"`
}

type knownFile struct {
	Findings []knownFinding `json:"findings"`
	Fixed    []string       `json:"fixed"`
}

func loadKnown(path string) knownFile {
	var k knownFile
	b, err := os.ReadFile(path)
	if err == nil {
		json.Unmarshal(b, &k)
	}
	return k
}

func sortedKeys[V any](m map[string]V) []string {
	ks := make([]string, 0, len(m))
	for k := range m {
		ks = append(ks, k)
	}
	sort.Strings(ks)
	return ks
}
