package main

import (
	"fmt"
	"strconv"

	"golang.org/x/tools/go/ssa"
)

// strOf converts a string-typed Value to Str.
func (m *Machine) strOf(v Value) Str {
	if s, ok := v.(Str); ok {
		return s
	}
	m.end("unsupported", fmt.Sprintf("expected string, got %T", v))
	return Str{}
}

func (m *Machine) c8(v byte) *Term { return m.tt.Const(8, uint64(v)) }

// strHasAt: term for "sub occurs in s at position i".
func (m *Machine) strHasAt(s, sub Str, i int) *Term {
	r := m.tt.Bool(true)
	for j := range sub.cells {
		r = m.tt.And(r, m.tt.Cmp("=", s.cells[i+j], sub.cells[j]))
	}
	return r
}

func (m *Machine) strContains(s, sub Str) *Term {
	r := m.tt.Bool(false)
	for i := 0; i+len(sub.cells) <= len(s.cells); i++ {
		r = m.tt.Or(r, m.strHasAt(s, sub, i))
	}
	return r
}

func (m *Machine) isASCIISpace(c *Term) *Term {
	tt := m.tt
	r := tt.Cmp("=", c, m.c8(' '))
	for _, x := range []byte{'\t', '\n', '\v', '\f', '\r'} {
		r = tt.Or(r, tt.Cmp("=", c, m.c8(x)))
	}
	return r
}

// requireASCII ends the path as unsupported when a non-ASCII byte is feasible here (stated limit of the
// string intrinsics that would otherwise need Unicode tables).
func (m *Machine) requireASCII(s Str, what string) {
	for _, c := range s.cells {
		if !m.branch(m.tt.Cmp("bvult", c, m.c8(0x80))) {
			m.end("assumed", what+" on non-ASCII input (Unicode tables are not modelled; stated restriction)")
		}
	}
}

// intrinsic implements small stdlib functions directly on symbolic strings.  ok=false: not an intrinsic.
func (m *Machine) intrinsic(name string, fn *ssa.Function, args []Value) (Value, bool) {
	tt := m.tt
	switch name {
	case "strings.Contains":
		return m.strContains(m.strOf(args[0]), m.strOf(args[1])), true
	case "strings.HasPrefix":
		s, p := m.strOf(args[0]), m.strOf(args[1])
		if len(p.cells) > len(s.cells) {
			return tt.Bool(false), true
		}
		return m.strHasAt(s, p, 0), true
	case "strings.HasSuffix":
		s, p := m.strOf(args[0]), m.strOf(args[1])
		if len(p.cells) > len(s.cells) {
			return tt.Bool(false), true
		}
		return m.strHasAt(s, p, len(s.cells)-len(p.cells)), true
	case "strings.Join":
		sl := args[0].(Slice)
		sep := m.strOf(args[1])
		var cells []*Term
		for i := 0; i < sl.len; i++ {
			if i > 0 {
				cells = append(cells, sep.cells...)
			}
			cells = append(cells, m.strOf(sl.node.elems[sl.off+i]).cells...)
		}
		return Str{cells}, true
	case "strings.ToLower":
		s := m.strOf(args[0])
		m.requireASCII(s, "strings.ToLower")
		out := make([]*Term, len(s.cells))
		for i, c := range s.cells {
			up := tt.And(tt.Cmp("bvule", m.c8('A'), c), tt.Cmp("bvule", c, m.c8('Z')))
			out[i] = tt.Ite(up, tt.Bin("bvadd", c, m.c8(32)), c)
		}
		return Str{out}, true
	case "strings.TrimSpace":
		s := m.strOf(args[0])
		lo, hi := 0, len(s.cells)
		for lo < hi {
			c := s.cells[lo]
			if !m.branch(tt.Cmp("bvult", c, m.c8(0x80))) {
				m.end("assumed", "strings.TrimSpace on non-ASCII input (Unicode tables are not modelled; stated restriction)")
			}
			if !m.branch(m.isASCIISpace(c)) {
				break
			}
			lo++
		}
		for hi > lo {
			c := s.cells[hi-1]
			if !m.branch(tt.Cmp("bvult", c, m.c8(0x80))) {
				m.end("assumed", "strings.TrimSpace on non-ASCII input (Unicode tables are not modelled; stated restriction)")
			}
			if !m.branch(m.isASCIISpace(c)) {
				break
			}
			hi--
		}
		return Str{s.cells[lo:hi]}, true
	case "strings.TrimRight":
		s := m.strOf(args[0])
		cut, ok := m.strOf(args[1]).concrete()
		if !ok {
			m.end("unsupported", "strings.TrimRight with symbolic cutset")
		}
		for i := 0; i < len(cut); i++ {
			if cut[i] >= 0x80 {
				m.end("unsupported", "strings.TrimRight with non-ASCII cutset")
			}
		}
		hi := len(s.cells)
		for hi > 0 {
			c := s.cells[hi-1]
			in := tt.Bool(false)
			for i := 0; i < len(cut); i++ {
				in = tt.Or(in, tt.Cmp("=", c, m.c8(cut[i])))
			}
			if !m.branch(in) {
				break
			}
			hi--
		}
		return Str{s.cells[:hi]}, true
	case "strings.Split":
		s := m.strOf(args[0])
		sep := m.strOf(args[1])
		if len(sep.cells) != 1 {
			if cs, ok := s.concrete(); ok {
				if csep, ok2 := sep.concrete(); ok2 {
					return m.strSliceConst(splitConst(cs, csep)), true
				}
			}
			m.end("unsupported", "strings.Split with separator length != 1 on symbolic input")
		}
		var parts []Str
		start := 0
		for i := 0; i < len(s.cells); i++ {
			if m.branch(tt.Cmp("=", s.cells[i], sep.cells[0])) {
				parts = append(parts, Str{s.cells[start:i]})
				start = i + 1
			}
		}
		parts = append(parts, Str{s.cells[start:]})
		node := m.newNode(len(parts))
		for i, p := range parts {
			node.elems[i] = p
		}
		return Slice{node, 0, len(parts), len(parts)}, true
	case "strings.Map":
		f := args[0].(*Closure)
		s := m.strOf(args[1])
		var out []*Term
		for i := 0; i < len(s.cells); {
			r, w := m.decodeRune(s.cells[i:])
			i += w
			res := m.term(m.call(f.fn, []Value{r}, f.env))
			if m.branch(tt.Cmp("bvslt", res, tt.Const(32, 0))) {
				continue
			}
			out = append(out, m.encodeRune(res).cells...)
		}
		return Str{out}, true
	case "internal/bytealg.IndexByteString", "internal/bytealg.IndexByte", "strings.IndexByte", "bytes.IndexByte":
		cells := m.cellsOf(args[0])
		c := m.term(args[1])
		for i := range cells {
			if m.branch(tt.Cmp("=", cells[i], c)) {
				return tt.Const(64, uint64(i)), true
			}
		}
		return tt.Const(64, ^uint64(0)), true
	case "internal/bytealg.Compare", "internal/bytealg.CompareString", "bytes.Compare", "strings.Compare":
		a, b := Str{m.cellsOf(args[0])}, Str{m.cellsOf(args[1])}
		one, zero, neg := tt.Const(64, 1), tt.Const(64, 0), tt.Const(64, ^uint64(0))
		return tt.Ite(m.strLess(a, b), neg, tt.Ite(m.strEq(a, b), zero, one)), true
	case "internal/bytealg.IndexString", "internal/bytealg.Index", "strings.Index", "bytes.Index":
		s, sub := Str{m.cellsOf(args[0])}, Str{m.cellsOf(args[1])}
		for i := 0; i+len(sub.cells) <= len(s.cells); i++ {
			if m.branch(m.strHasAt(s, sub, i)) {
				return tt.Const(64, uint64(i)), true
			}
		}
		return tt.Const(64, ^uint64(0)), true
	case "internal/bytealg.MakeNoZero":
		n := m.term(args[0])
		if !n.IsConst() {
			m.end("unsupported", "bytealg.MakeNoZero with a symbolic length")
		}
		nd := m.newNode(int(n.val))
		for i := range nd.elems {
			nd.elems[i] = tt.Const(8, 0)
		}
		return Slice{nd, 0, int(n.val), int(n.val)}, true
	case "internal/bytealg.CountString", "internal/bytealg.Count":
		cells := m.cellsOf(args[0])
		c := m.term(args[1])
		acc := tt.Const(64, 0)
		for i := range cells {
			acc = tt.Bin("bvadd", acc, tt.Ite(tt.Cmp("=", cells[i], c), tt.Const(64, 1), tt.Const(64, 0)))
		}
		return acc, true
	case "sort.StringsAreSorted":
		sl := args[0].(Slice)
		r := tt.Bool(true)
		for i := 1; i < sl.len; i++ {
			a, b := m.strOf(sl.node.elems[sl.off+i-1]), m.strOf(sl.node.elems[sl.off+i])
			r = tt.And(r, tt.Not(m.strLess(b, a)))
		}
		return r, true
	case "strconv.Itoa":
		t := m.term(args[0])
		if t.IsConst() {
			return m.strConst(strconv.Itoa(int(int64(t.val)))), true
		}
		return m.itoaSym(t), true
	case "unicode.IsPrint":
		// uninterpreted, except for the ASCII range where it is exact
		r := m.term(args[0])
		ascii := tt.And(tt.Cmp("bvule", tt.Const(32, 0x20), r), tt.Cmp("bvule", r, tt.Const(32, 0x7e)))
		low := tt.Cmp("bvult", r, tt.Const(32, 0x80))
		if m.branch(low) {
			return ascii, true
		}
		return m.fresh(0, "isprint"), true
	}
	return nil, false
}

func splitConst(s, sep string) []string {
	var out []string
	for {
		i := indexConst(s, sep)
		if i < 0 || sep == "" {
			break
		}
		out = append(out, s[:i])
		s = s[i+len(sep):]
	}
	return append(out, s)
}

func indexConst(s, sep string) int {
	for i := 0; i+len(sep) <= len(s); i++ {
		if s[i:i+len(sep)] == sep {
			return i
		}
	}
	return -1
}

func (m *Machine) strSliceConst(parts []string) Value {
	node := m.newNode(len(parts))
	for i, p := range parts {
		node.elems[i] = m.strConst(p)
	}
	return Slice{node, 0, len(parts), len(parts)}
}

// itoaSym renders a symbolic non-negative int below 100000 as decimal digits by forking on the digit count;
// other values end the path as unsupported (stated limit).
func (m *Machine) itoaSym(t *Term) Str {
	tt := m.tt
	if !m.branch(tt.And(tt.Cmp("bvsle", tt.Const(64, 0), t), tt.Cmp("bvslt", t, tt.Const(64, 100000)))) {
		m.end("assumed", "strconv.Itoa on a symbolic value outside 0..99999 (stated restriction)")
	}
	digits := 1
	for lim := uint64(10); digits < 5; lim *= 10 {
		if m.branch(tt.Cmp("bvult", t, tt.Const(64, lim))) {
			break
		}
		digits++
	}
	cells := make([]*Term, digits)
	v := t
	for i := digits - 1; i >= 0; i-- {
		d := tt.Bin("bvurem", v, tt.Const(64, 10))
		cells[i] = tt.Bin("bvadd", tt.Extract(d, 7, 0), m.c8('0'))
		v = tt.Bin("bvudiv", v, tt.Const(64, 10))
	}
	return Str{cells}
}
