package main

import (
	"fmt"
	"go/types"

	"golang.org/x/tools/go/ssa"
)

type Value interface{}

// Str is an immutable string value with concrete length and (possibly symbolic) byte cells.
type Str struct{ cells []*Term }

// Node is mutable aggregate storage (array, struct, or a single allocated slot).
type Node struct {
	elems []Value
	id    int
	glob  bool // package-level state (a global or an object created by a package initialiser)
}

type Ptr struct {
	node *Node
	idx  int
	sym  *Term // symbolic index relative to idx (nil = concrete)
	n    int   // number of addressable elements when sym != nil
}

type Slice struct {
	node          *Node
	off, len, cap int
}

type Iface struct {
	typ types.Type
	val Value
}

type MapObj struct {
	keys, vals []Value
	opaque     bool
	id         int
	glob       bool
}

type Closure struct {
	fn  *ssa.Function
	env []Value
}

type Tuple []Value

type Opaque struct{ tag string }

// ErrV is the stub error object (oops / fmt.Errorf / errors.New).
type ErrV struct {
	id      int
	msg     string
	wrapped Value
}

func (p Ptr) isNil() bool   { return p.node == nil }
func (s Slice) isNil() bool { return s.node == nil }

func (m *Machine) newNode(n int) *Node {
	m.nodeSeq++
	return &Node{elems: make([]Value, n), id: m.nodeSeq, glob: m.inInit > 0}
}

func width(t types.Type) int {
	switch b := t.Underlying().(type) {
	case *types.Basic:
		switch b.Kind() {
		case types.Bool, types.UntypedBool:
			return 0
		case types.Int8, types.Uint8:
			return 8
		case types.Int16, types.Uint16:
			return 16
		case types.Int32, types.Uint32, types.UntypedRune:
			return 32
		case types.Int, types.Uint, types.Int64, types.Uint64, types.Uintptr, types.UntypedInt:
			return 64
		}
	}
	return -1
}

func isSigned(t types.Type) bool {
	if b, ok := t.Underlying().(*types.Basic); ok {
		return b.Info()&types.IsInteger != 0 && b.Info()&types.IsUnsigned == 0
	}
	return false
}

func isString(t types.Type) bool {
	b, ok := t.Underlying().(*types.Basic)
	return ok && b.Info()&types.IsString != 0
}

func (m *Machine) zero(t types.Type) Value {
	switch u := t.Underlying().(type) {
	case *types.Basic:
		if isString(t) {
			return Str{}
		}
		if u.Kind() == types.UnsafePointer {
			return Ptr{}
		}
		w := width(t)
		if w < 0 {
			panic(fmt.Sprintf("zero: unsupported basic %v", t))
		}
		if w == 0 {
			return m.tt.Bool(false)
		}
		return m.tt.Const(w, 0)
	case *types.Pointer:
		return Ptr{}
	case *types.Slice:
		return Slice{}
	case *types.Map:
		return (*MapObj)(nil)
	case *types.Interface:
		return Iface{}
	case *types.Signature:
		return (*Closure)(nil)
	case *types.Struct:
		n := m.newNode(u.NumFields())
		for i := 0; i < u.NumFields(); i++ {
			n.elems[i] = m.zero(u.Field(i).Type())
		}
		return n
	case *types.Array:
		n := m.newNode(int(u.Len()))
		for i := range n.elems {
			n.elems[i] = m.zero(u.Elem())
		}
		return n
	case *types.Tuple:
		tp := make(Tuple, u.Len())
		for i := range tp {
			tp[i] = m.zero(u.At(i).Type())
		}
		return tp
	}
	panic(fmt.Sprintf("zero: unsupported type %v", t))
}

// copyVal deep-copies aggregate values (value semantics); everything else is immutable or a reference.
func (m *Machine) copyVal(v Value) Value {
	if n, ok := v.(*Node); ok && n != nil {
		c := m.newNode(len(n.elems))
		for i, e := range n.elems {
			c.elems[i] = m.copyVal(e)
		}
		return c
	}
	return v
}

// assignInto overwrites slot (n,idx) with v, in place for aggregates so interior pointers stay valid.
func (m *Machine) assignInto(n *Node, idx int, v Value) {
	if src, ok := v.(*Node); ok && src != nil {
		if dst, ok := n.elems[idx].(*Node); ok && dst != nil && len(dst.elems) == len(src.elems) {
			for i, e := range src.elems {
				m.assignInto(dst, i, e)
			}
			return
		}
		n.elems[idx] = m.copyVal(src)
		return
	}
	n.elems[idx] = v
}

func (m *Machine) strConst(s string) Str {
	cells := make([]*Term, len(s))
	for i := 0; i < len(s); i++ {
		cells[i] = m.tt.Const(8, uint64(s[i]))
	}
	return Str{cells}
}

func (s Str) concrete() (string, bool) {
	b := make([]byte, len(s.cells))
	for i, c := range s.cells {
		if !c.IsConst() {
			return "", false
		}
		b[i] = byte(c.val)
	}
	return string(b), true
}

func (m *Machine) noteWrite(n *Node, where string) {
	if m.frozen > 0 && n.id > 0 && m.inInit == 0 && (n.id <= m.frozen || n.glob) {
		lbl := "write to pre-existing object"
		if n.glob {
			lbl = "write to package-level state"
		}
		m.events = append(m.events, pathEvent{kind: "write", label: lbl, detail: where + m.ctxSuffix()})
	}
}

func (m *Machine) noteWriteMap(mp *MapObj, where string) {
	if m.frozen > 0 && mp.id > 0 && m.inInit == 0 && (mp.id <= m.frozen || mp.glob) {
		m.events = append(m.events, pathEvent{kind: "write", label: "write to pre-existing map", detail: where + m.ctxSuffix()})
	}
}

func (m *Machine) newMap() *MapObj {
	m.nodeSeq++
	return &MapObj{id: m.nodeSeq, glob: m.inInit > 0}
}

func (m *Machine) ctxSuffix() string {
	if m.context != "" {
		return " during " + m.context
	}
	return ""
}
