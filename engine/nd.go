package main

import (
	"fmt"
)

// flatDraws returns all draw terms of the path in order.
func (m *Machine) flatDraws() []*Term {
	var ts []*Term
	for _, d := range m.draws {
		ts = append(ts, d.terms...)
	}
	return ts
}

func (m *Machine) modelFrom(vals []uint64) []drawVal {
	out := make([]drawVal, len(m.draws))
	k := 0
	for i, d := range m.draws {
		out[i] = drawVal{Kind: d.kind, V: make([]uint64, len(d.terms))}
		for j := range d.terms {
			out[i].V[j] = vals[k]
			k++
		}
	}
	return out
}

// currentModel asks for a model of the current path condition (plus whatever is asserted in the
// current scope) and returns the draws' values.
func (m *Machine) currentModel() ([]drawVal, string) {
	ts := m.flatDraws()
	r, vals := m.sol().CheckModel(ts)
	if r != "sat" {
		return nil, r
	}
	if len(ts) == 0 {
		return []drawVal{}, r
	}
	return m.modelFrom(vals), r
}

func (m *Machine) newDrawVar(w int, kind string) *Term {
	v := m.tt.Var(w, fmt.Sprintf("d%d", len(m.draws)))
	m.draws = append(m.draws, draw{kind: kind, w: w, terms: []*Term{v}})
	return v
}

func (m *Machine) newDrawCells(n int, kind string) []*Term {
	k := len(m.draws)
	cells := make([]*Term, n)
	for i := 0; i < n; i++ {
		cells[i] = m.tt.Var(8, fmt.Sprintf("d%d_%d", k, i))
	}
	m.draws = append(m.draws, draw{kind: kind, w: 8, terms: cells})
	return cells
}

func (m *Machine) ndStub(name string, args []Value) Value {
	tt := m.tt
	switch name {
	case "init":
		return nil
	case "Bytes", "String":
		n := int(int64(m.concretize(m.term(args[0]), "nd.Bytes length")))
		if n < 0 || n > 1<<20 {
			m.end("vacuous", "nd.Bytes length out of range")
		}
		cells := m.newDrawCells(n, "bytes")
		if name == "String" {
			return Str{cells}
		}
		node := m.newNode(n)
		for i, c := range cells {
			node.elems[i] = c
		}
		return Slice{node, 0, n, n}
	case "Byte":
		return m.newDrawVar(8, "int")
	case "Uint16":
		return m.newDrawVar(16, "int")
	case "Uint32":
		return m.newDrawVar(32, "int")
	case "Uint64", "Int", "Int64":
		return m.newDrawVar(64, "int")
	case "Bool":
		return m.newDrawVar(0, "int")
	case "IntRange":
		lo, hi := m.term(args[0]), m.term(args[1])
		v := m.newDrawVar(64, "int")
		m.sol().Assert(tt.Cmp("bvsle", lo, v))
		m.sol().Assert(tt.Cmp("bvsle", v, hi))
		return tt.Const(64, m.concretize(v, "nd.IntRange"))
	case "Thorough":
		return tt.Bool(m.hr.run.thorough)
	case "Roomy":
		return tt.Bool(m.hr.roomy)
	case "Assume":
		c := m.term(args[0])
		if c.IsFalse() {
			m.end("vacuous", "assume false")
		}
		if c.IsTrue() {
			return nil
		}
		m.sol().Assert(c)
		if m.pos >= len(m.prefix) {
			if r := m.sol().Check(); r == "unsat" {
				m.end("vacuous", "assumption unsatisfiable")
			} else if r != "sat" {
				m.inconclusive++
			}
		}
		return nil
	case "Assert":
		c := m.term(args[0])
		label, _ := args[1].(Str).concrete()
		m.asserts++
		m.obligations++
		if c.IsTrue() {
			m.assertsSyn++
			return nil
		}
		m.sol().Push()
		m.sol().Assert(tt.Not(c))
		model, r := m.currentModel()
		var realised []drawVal
		if r == "sat" {
			realised = m.realise(model)
		}
		m.sol().Pop()
		if r == "sat" {
			m.events = append(m.events, pathEvent{kind: "assert", label: label, model: model, realised: realised})
		} else if r != "unsat" {
			m.inconclusive++
			m.events = append(m.events, pathEvent{kind: "inconclusive", label: label})
		}
		m.sol().Assert(c) // continue under the assumption that the assertion holds
		if r == "sat" {
			// the rest of the path may be infeasible now
			if c.IsFalse() {
				m.end("vacuous", "after violated assertion")
			}
			if m.sol().Check() == "unsat" {
				m.end("vacuous", "after violated assertion")
			}
		}
		return nil
	case "Havoc":
		sl := args[0].(Slice)
		cells := m.newDrawCells(sl.len, "havoc")
		for i := 0; i < sl.len; i++ {
			sl.node.elems[sl.off+i] = cells[i]
		}
		return nil
	case "SigValid":
		alg, _ := args[0].(Str).concrete()
		return m.sigValid(false, alg, m.cellsOf(args[1]), m.cellsOf(args[2]), m.cellsOf(args[3]))
	case "Hash":
		cells := m.idealHash(m.cellsOf(args[0]))
		node := m.newNode(32)
		for i, c := range cells {
			node.elems[i] = c
		}
		return node
	case "Ed25519Key":
		seed := m.newDrawCells(32, "bytes")
		// the public half is an ideal injective function of the seed: two draws with the same seed are the same
		// key pair (as they are natively), different seeds give different public keys
		pc := m.idealFn("ed25519pub", seed, 32, true)
		priv := m.newNode(64)
		pub := m.newNode(32)
		for i := 0; i < 32; i++ {
			priv.elems[i] = seed[i]
			priv.elems[32+i] = pc[i]
			pub.elems[i] = pc[i]
		}
		return Tuple{Slice{priv, 0, 64, 64}, Slice{pub, 0, 32, 32}}
	case "NowUnix":
		m.nowObserved = true
		return m.nowBase()
	case "AssumeHashInjective":
		m.hashInjective = true
		for i := 0; i < len(m.hashLog); i++ {
			for j := i + 1; j < len(m.hashLog); j++ {
				if m.hashLog[i].fn == "sha256" && m.hashLog[j].fn == "sha256" {
					m.assertHashInjective(m.hashLog[i], m.hashLog[j])
				}
			}
		}
		return nil
	case "X25519Key":
		priv := m.newDrawCells(32, "bytes")
		pub := m.x25519Pub(priv)
		return Tuple{m.byteSlice(priv), m.byteSlice(pub)}
	case "Freeze":
		m.frozen = m.nodeSeq
		return nil
	case "Thaw":
		m.frozen = 0
		return nil
	case "Cover":
		label, _ := args[0].(Str).concrete()
		m.covers[label] = true
		return nil
	case "And":
		return tt.And(m.term(args[0]), m.term(args[1]))
	case "Or":
		return tt.Or(m.term(args[0]), m.term(args[1]))
	case "Implies":
		return tt.Or(tt.Not(m.term(args[0])), m.term(args[1]))
	case "Context":
		m.context, _ = args[0].(Str).concrete()
		return nil
	case "Expect":
		label, _ := args[0].(Str).concrete()
		m.expects = append(m.expects, label)
		return nil
	case "Called":
		label, _ := args[0].(Str).concrete()
		return tt.Bool(m.called[label])
	case "ObserveBytes":
		label, _ := args[0].(Str).concrete()
		m.observes = append(m.observes, observed{label, m.cellsOf(args[1])})
		return nil
	case "ObserveInt":
		label, _ := args[0].(Str).concrete()
		m.observes = append(m.observes, observed{label, []*Term{m.term(args[1])}})
		return nil
	case "ObserveBool":
		label, _ := args[0].(Str).concrete()
		m.observes = append(m.observes, observed{label, []*Term{m.term(args[1])}})
		return nil
	}
	m.end("unsupported", "nd."+name)
	return nil
}

// cellsOf flattens a []byte / string / [N]byte value into its byte terms.
func (m *Machine) cellsOf(v Value) []*Term {
	switch a := v.(type) {
	case Slice:
		out := make([]*Term, a.len)
		for i := 0; i < a.len; i++ {
			out[i] = m.term(a.node.elems[a.off+i])
		}
		return out
	case Str:
		return a.cells
	case *Node:
		out := make([]*Term, len(a.elems))
		for i := range a.elems {
			out[i] = m.term(a.elems[i])
		}
		return out
	}
	m.end("unsupported", fmt.Sprintf("cellsOf %T", v))
	return nil
}
