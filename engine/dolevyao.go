package main

import (
	"fmt"

	"golang.org/x/tools/go/ssa"
)

// Dolev-Yao style ideal primitives for C16 (encrypted leaseset, blinding).  None of the mathematics of X25519,
// HKDF, ChaCha20-Poly1305 or Ed25519 point arithmetic is modelled: the primitives are injective uninterpreted
// functions with the algebraic facts the protocol relies on (DH commutes; decryption inverts encryption under the
// same key and nonce and fails otherwise).  What the executor then decides is the library's plumbing.

type aeadEnc struct {
	key, nonce, ad, pt, ct, tag []*Term
}

// AeadObj is the value behind a stubbed *chacha20poly1305.AEAD.
type AeadObj struct{ key []*Term }

// KdfObj is the value behind a stubbed *kdf.KeyDerivation.
type KdfObj struct{ root []*Term }

func eqCells(tt *TermTable, a, b []*Term) *Term {
	if len(a) != len(b) {
		return tt.Bool(false)
	}
	r := tt.Bool(true)
	for i := range a {
		r = tt.And(r, tt.Cmp("=", a[i], b[i]))
	}
	return r
}

func (m *Machine) byteSlice(cells []*Term) Slice {
	n := m.newNode(len(cells))
	for i, c := range cells {
		n.elems[i] = c
	}
	return Slice{n, 0, len(cells), len(cells)}
}

func (m *Machine) byteArray(cells []*Term) *Node {
	n := m.newNode(len(cells))
	for i, c := range cells {
		n.elems[i] = c
	}
	return n
}

// x25519Pub is the public key of a private key: an injective uninterpreted function of the CLAMPED scalar (RFC 7748:
// bits 0..2 of the first byte and bit 7 of the last byte are cleared, bit 6 of the last byte is set before use, so
// private keys that differ only there are the same key), with a canonical result (bit 255 clear).
func (m *Machine) x25519Pub(priv []*Term) []*Term {
	tt := m.tt
	in := append([]*Term{}, priv...)
	if len(in) == 32 {
		in[0] = tt.Bin("bvand", in[0], tt.Const(8, 248))
		in[31] = tt.Bin("bvor", tt.Bin("bvand", in[31], tt.Const(8, 127)), tt.Const(8, 64))
	}
	out := m.idealFn("x25519pub", in, 32, true)
	m.sol().Assert(tt.Cmp("=", tt.Bin("bvand", out[31], tt.Const(8, 0x80)), tt.Const(8, 0)))
	return out
}

// dhShared: DH(priv, peerPub) as an injective function of the unordered pair {pub(priv), peerPub}: both orders
// are looked up so that DH(a, P(b)) = DH(b, P(a)).
func (m *Machine) dhShared(priv, peer []*Term) []*Term {
	own := m.x25519Pub(priv)
	// RFC 7748: the most significant bit of the peer's u-coordinate is masked before the ladder
	peer = append([]*Term{}, peer...)
	peer[31] = m.tt.Bin("bvand", peer[31], m.tt.Const(8, 0x7f))
	for _, a := range m.hashLog {
		if a.fn != "x25519dh" || len(a.in) != 64 {
			continue
		}
		same := func(x, y []*Term) bool {
			for i := range x {
				if x[i] != y[i] {
					return false
				}
			}
			return true
		}
		if (same(a.in[:32], own) && same(a.in[32:], peer)) || (same(a.in[:32], peer) && same(a.in[32:], own)) {
			return a.out
		}
	}
	in := append(append([]*Term{}, own...), peer...)
	out := m.idealFn("x25519dh", in, 32, true)
	// commutativity against earlier applications that are not syntactically identical
	for _, a := range m.hashLog {
		if a.fn != "x25519dh" || &a.out[0] == &out[0] || len(a.in) != 64 {
			continue
		}
		swapped := m.tt.And(eqCells(m.tt, a.in[:32], peer), eqCells(m.tt, a.in[32:], own))
		m.sol().Assert(m.tt.Or(m.tt.Not(swapped), eqCells(m.tt, a.out, out)))
	}
	return out
}

func (m *Machine) dolevYao(name string, fn *ssa.Function, args []Value) (Value, bool) {
	tt := m.tt
	results := fn.Signature.Results()
	switch {
	case name == "go.step.sm/crypto/x25519.GenerateKey":
		m.varSeq++
		priv := make([]*Term, 32)
		for i := range priv {
			priv[i] = tt.Var(8, fmt.Sprintf("eph%d_%d", m.varSeq, i))
		}
		pub := m.x25519Pub(priv)
		m.called["x25519.GenerateKey"] = true
		return Tuple{m.byteSlice(pub), m.byteSlice(priv), Iface{}}, true
	case name == "(go.step.sm/crypto/x25519.PrivateKey).SharedKey":
		priv, peer := m.cellsOf(args[0]), m.cellsOf(args[1])
		if len(priv) != 32 || len(peer) != 32 {
			return Tuple{Slice{}, m.newErr("x25519: bad key length", nil)}, true
		}
		m.called["x25519.SharedKey"] = true
		return Tuple{m.byteSlice(m.dhShared(priv, peer)), Iface{}}, true
	case name == "(go.step.sm/crypto/x25519.PrivateKey).Public" || name == "(go.step.sm/crypto/x25519.PrivateKey).PublicKey":
		pub := m.byteSlice(m.x25519Pub(m.cellsOf(args[0])))
		if results.Len() == 2 {
			return Tuple{pub, Iface{}}, true
		}
		return Iface{typ: fn.Pkg.Pkg.Scope().Lookup("PublicKey").Type(), val: pub}, true
	case name == "github.com/go-i2p/crypto/kdf.NewKeyDerivation":
		slot := m.newNode(1)
		slot.elems[0] = &KdfObj{root: m.cellsOf(args[0])}
		return Ptr{node: slot, idx: 0}, true
	case name == "(*github.com/go-i2p/crypto/kdf.KeyDerivation).DeriveForPurpose":
		p := args[0].(Ptr)
		k, ok := p.node.elems[p.idx].(*KdfObj)
		if !ok {
			m.end("unsupported", "KeyDerivation not created by the stub")
		}
		purpose := m.term(args[1])
		in := append([]*Term{}, k.root...)
		for i := 0; i < 8; i++ {
			in = append(in, tt.Extract(purpose, 8*i+7, 8*i))
		}
		return Tuple{m.byteArray(m.idealFn("hkdf", in, 32, true)), Iface{}}, true
	case name == "github.com/go-i2p/crypto/chacha20poly1305.NewAEAD":
		slot := m.newNode(1)
		slot.elems[0] = &AeadObj{key: m.cellsOf(args[0])}
		return Tuple{Ptr{node: slot, idx: 0}, Iface{}}, true
	case name == "(*github.com/go-i2p/crypto/chacha20poly1305.AEAD).Encrypt":
		p := args[0].(Ptr)
		a, ok := p.node.elems[p.idx].(*AeadObj)
		if !ok {
			m.end("unsupported", "AEAD not created by the stub")
		}
		pt, ad, nonce := m.cellsOf(args[1]), m.cellsOf(args[2]), m.cellsOf(args[3])
		if len(nonce) != 12 {
			return Tuple{Slice{}, m.byteArray(make16(tt)), m.newErr("invalid nonce size", nil)}, true
		}
		m.varSeq++
		ct := make([]*Term, len(pt))
		for i := range ct {
			ct[i] = tt.Var(8, fmt.Sprintf("ct%d_%d", m.varSeq, i))
		}
		tag := make([]*Term, 16)
		for i := range tag {
			tag[i] = tt.Var(8, fmt.Sprintf("tag%d_%d", m.varSeq, i))
		}
		m.aeadLog = append(m.aeadLog, aeadEnc{a.key, nonce, ad, pt, ct, tag})
		m.called["aead.Encrypt"] = true
		return Tuple{m.byteSlice(ct), m.byteArray(tag), Iface{}}, true
	case name == "(*github.com/go-i2p/crypto/chacha20poly1305.AEAD).Decrypt":
		p := args[0].(Ptr)
		a, ok := p.node.elems[p.idx].(*AeadObj)
		if !ok {
			m.end("unsupported", "AEAD not created by the stub")
		}
		ct, tag, ad, nonce := m.cellsOf(args[1]), m.cellsOf(args[2]), m.cellsOf(args[3]), m.cellsOf(args[4])
		m.called["aead.Decrypt"] = true
		for _, e := range m.aeadLog {
			match := tt.And(tt.And(eqCells(tt, e.key, a.key), eqCells(tt, e.nonce, nonce)),
				tt.And(tt.And(eqCells(tt, e.ct, ct), eqCells(tt, e.tag, tag)), eqCells(tt, e.ad, ad)))
			if m.branch(match) {
				return Tuple{m.byteSlice(e.pt), Iface{}}, true
			}
		}
		// not the output of any encryption under this key and nonce: authentication fails (ideal AEAD)
		return Tuple{Slice{}, m.newErr("chacha20poly1305: message authentication failed", nil)}, true
	case name == "github.com/go-i2p/crypto/kdf.DeriveBlindingFactor":
		secret, date := m.cellsOf(args[0]), m.cellsOf(args[1])
		if len(secret) < 32 {
			return Tuple{m.byteArray(zeros(tt, 32)), m.newErr("invalid secret: need at least 32 bytes", nil)}, true
		}
		in := append(append([]*Term{}, secret...), date...)
		in = append(in, tt.Const(8, uint64(len(secret)&0xff)))
		m.called["kdf.DeriveBlindingFactor"] = true
		return Tuple{m.byteArray(m.idealFn("blindfactor", in, 32, true)), Iface{}}, true
	case name == "github.com/go-i2p/crypto/ed25519.BlindPublicKey":
		pub, alpha := m.cellsOf(args[0]), m.cellsOf(args[1])
		// a public key produced by nd.Ed25519Key is a valid curve point; for any other bytes validity is arbitrary
		tied := false
		for _, a := range m.hashLog {
			if a.fn != "ed25519pub" || len(pub) != 32 {
				continue
			}
			same := true
			for i := range pub {
				same = same && a.out[i] == pub[i]
			}
			tied = tied || same
		}
		if !tied {
			ok := m.idealFn("ed25519point-valid", pub, 1, false)
			if !m.branch(tt.Cmp("=", tt.Extract(ok[0], 0, 0), tt.Const(1, 1))) {
				return Tuple{m.byteArray(zeros(tt, 32)), m.newErr("invalid public key point", nil)}, true
			}
		}
		in := append(append([]*Term{}, pub...), alpha...)
		out := m.idealFn("ed25519blind", in, 32, true)
		m.sol().Assert(tt.Not(eqCells(tt, out, pub))) // blinding moves the key (assumed)
		m.called["ed25519.BlindPublicKey"] = true
		return Tuple{m.byteArray(out), Iface{}}, true
	case name == "time.FixedZone":
		slot := m.newNode(1)
		slot.elems[0] = m.newNode(7) // opaque Location
		if m.zoneOff == nil {
			m.zoneOff = map[*Node]*Term{}
		}
		m.zoneOff[slot] = m.term(args[1])
		return Ptr{node: slot, idx: 0}, true
	case name == "(time.Time).Format":
		layout, _ := m.strOf(args[1]).concrete()
		if layout != "2006-01-02" {
			return m.strConst("<formatted time>"), true
		}
		day := m.localDay(args[0].(*Node))
		in := make([]*Term, 8)
		for i := 0; i < 8; i++ {
			in[i] = tt.Extract(day, 8*i+7, 8*i)
		}
		m.called["time.Format:date"] = true
		return Str{m.idealFn("calendar-day-string", in, 10, true)}, true
	case name == "(time.Time).Date" || name == "(time.Time).Year" || name == "(time.Time).Month" || name == "(time.Time).Day" || name == "(time.Time).YearDay":
		// civil date = injective uninterpreted function of the local calendar day number
		day := m.localDay(args[0].(*Node))
		in := make([]*Term, 8)
		for i := 0; i < 8; i++ {
			in[i] = tt.Extract(day, 8*i+7, 8*i)
		}
		c := m.idealFn("civil-date", in, 4, true)
		y := tt.Zext(tt.Concat(c[0], c[1]), 64)
		mo := tt.Zext(c[2], 64)
		d := tt.Zext(c[3], 64)
		switch fn.Name() {
		case "Date":
			return Tuple{y, mo, d}, true
		case "Year":
			return y, true
		case "Month":
			return mo, true
		case "Day":
			return d, true
		}
		return tt.Zext(tt.Concat(c[2], c[3]), 64), true
	}
	return nil, false
}

func zeros(tt *TermTable, n int) []*Term {
	z := make([]*Term, n)
	for i := range z {
		z[i] = tt.Const(8, 0)
	}
	return z
}

func make16(tt *TermTable) []*Term { return zeros(tt, 16) }

func negU64(v int64) uint64 { return uint64(-v) }

// localDay is floor((unix seconds + zone offset) / 86400) of a time.Time value: zone offset 0 for UTC, the
// offset given to time.FixedZone for such locations, an arbitrary offset in -12h..+14h for any other location.
func (m *Machine) localDay(t *Node) *Term {
	tt := m.tt
	ext := m.term(t.elems[1])
	unix := tt.Bin("bvsub", ext, tt.Const(64, 62135596800))
	off := tt.Const(64, 0)
	if loc, ok := t.elems[2].(Ptr); ok && !loc.isNil() {
		if o, ok := m.zoneOff[loc.node]; ok {
			off = o
		} else {
			if m.locOff == nil {
				m.locOff = map[*Node]*Term{}
			}
			o, ok := m.locOff[loc.node]
			if !ok {
				o = m.fresh(64, "zoneoffset")
				m.sol().Assert(tt.Cmp("bvsle", tt.Const(64, negU64(12*3600)), o))
				m.sol().Assert(tt.Cmp("bvsle", o, tt.Const(64, 14*3600)))
				m.locOff[loc.node] = o
			}
			off = o
		}
	}
	local := tt.Bin("bvadd", unix, off)
	if !m.branch(tt.Cmp("bvsle", tt.Const(64, 0), local)) {
		m.end("assumed", "calendar day of an instant before 1970 (stated restriction of the time stubs)")
	}
	return tt.Bin("bvudiv", local, tt.Const(64, 86400))
}
