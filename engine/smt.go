package main

import (
	"bufio"
	"context"
	"fmt"
	"io"
	"os"
	"os/exec"
	"strconv"
	"strings"
	"sync"
	"time"
)

// Solver wraps one live `z3 -in` process (z3 5.1.0 = z3-new by default).  Definitions
// (declare-const / define-fun) are scoped by push/pop.  Every line sent is also kept per
// scope level so that the current assertion stack can be re-played on another back end
// (cvc5 --solve-bv-as-int=sum, z3 4.8.12) when the primary answers unknown.
type Solver struct {
	cmd     *exec.Cmd
	in      io.WriteCloser
	out     *bufio.Reader
	level   int
	defined []map[int]bool // per level: term ids introduced
	lines   [][]string     // per level: script lines
	log     io.Writer
	dead    bool
	kind    string  // "z3" (default) or "cvc5" (integer encoding of bit-vectors, for the x/÷-by-constant kernels)
	mirror  *Solver // for kind cvc5: a z3 session receiving the same script, asked when cvc5 gives up quickly
	tlimit  int

	st *SolverStats
}

// SolverStats is shared by all workers of a run (guarded by mu).
type SolverStats struct {
	mu        sync.Mutex
	Queries   map[string]int     // per back end
	Time      map[string]float64 // seconds per back end
	Escalated int
	Unknown   int
	Errors    int
}

func NewSolverStats() *SolverStats {
	return &SolverStats{Queries: map[string]int{}, Time: map[string]float64{}}
}

func (st *SolverStats) add(backend string, d time.Duration) {
	st.mu.Lock()
	st.Queries[backend]++
	st.Time[backend] += d.Seconds()
	st.mu.Unlock()
}

var (
	PrimaryBin     = "z3-new"
	PrimaryTimeout = 3000  // ms per check-sat on the live session
	EscTimeout     = 60    // s per escalated one-shot query
	NoEscalate     = false // testing only
)

func NewSolver(log io.Writer, st *SolverStats) *Solver {
	return NewSolverKind(log, st, "z3")
}

func NewSolverKind(log io.Writer, st *SolverStats, kind string) *Solver {
	s := &Solver{log: log, st: st, kind: kind, tlimit: PrimaryTimeout}
	if kind == "cvc5" {
		// the integer encoding answers the unsat instances of the x/÷-by-constant kernels in milliseconds and
		// times out on the sat ones, where bit-blasting is fast: short limit here, z3 mirror second
		s.tlimit = 1500
		s.mirror = &Solver{st: st, kind: "z3", tlimit: PrimaryTimeout}
		s.mirror.start()
	}
	s.start()
	return s
}

func (s *Solver) name() string {
	if s.kind == "cvc5" {
		return "cvc5-bvint-live"
	}
	return PrimaryBin
}

func (s *Solver) start() {
	cmd := exec.Command(PrimaryBin, "-in")
	if s.kind == "cvc5" {
		cmd = exec.Command("cvc5", "--incremental", "--produce-models", "--solve-bv-as-int=iand", fmt.Sprintf("--tlimit-per=%d", s.tlimit), "--lang=smt2")
	}
	in, _ := cmd.StdinPipe()
	out, _ := cmd.StdoutPipe()
	cmd.Stderr = nil
	if err := cmd.Start(); err != nil {
		panic("cannot start solver " + PrimaryBin + ": " + err.Error())
	}
	s.cmd, s.in, s.out = cmd, in, bufio.NewReaderSize(out, 1<<20)
	s.level = 0
	s.defined = []map[int]bool{{}}
	s.lines = [][]string{{}}
	s.dead = false
	if s.kind == "cvc5" {
		s.raw("(set-logic ALL)")
	} else {
		s.raw("(set-option :print-success false)")
		s.raw("(set-option :produce-models true)")
		s.raw(fmt.Sprintf("(set-option :timeout %d)", s.tlimit))
	}
}

func (s *Solver) raw(str string) {
	s.rawOnly(str)
	if s.mirror != nil && !strings.HasPrefix(str, "(set-") {
		s.mirror.rawOnly(str)
	}
}

func (s *Solver) rawOnly(str string) {
	if s.log != nil {
		fmt.Fprintln(s.log, str)
	}
	if _, err := io.WriteString(s.in, str+"\n"); err != nil {
		s.dead = true
	}
}

func (s *Solver) send(str string) {
	s.lines[s.level] = append(s.lines[s.level], str)
	s.raw(str)
}

func (s *Solver) Close() {
	if s.mirror != nil {
		s.mirror.Close()
	}
	s.in.Close()
	done := make(chan struct{})
	go func() { s.cmd.Wait(); close(done) }()
	select {
	case <-done:
	case <-time.After(2 * time.Second):
		s.cmd.Process.Kill()
	}
}

// Reset brings the session back to level 0 with nothing defined (used between paths when the
// term table is renewed).
func (s *Solver) Reset() {
	for s.level > 0 {
		s.Pop()
	}
	if s.dead || (s.mirror != nil && s.mirror.dead) {
		s.Close()
		if s.mirror != nil {
			s.mirror.start()
		}
		s.start()
	}
}

func (s *Solver) Push() {
	s.level++
	s.defined = append(s.defined, map[int]bool{})
	s.lines = append(s.lines, nil)
	s.raw("(push 1)")
}

func (s *Solver) Pop() {
	s.level--
	s.defined = s.defined[:len(s.defined)-1]
	s.lines = s.lines[:len(s.lines)-1]
	s.raw("(pop 1)")
}

func (s *Solver) isDefined(id int) bool {
	for _, m := range s.defined {
		if m[id] {
			return true
		}
	}
	return false
}

// ref returns the SMT name of t, emitting definitions for t and its subterms as needed.
func (s *Solver) ref(t *Term) string {
	switch t.op {
	case "const":
		return constStr(t)
	case "var":
		if !s.isDefined(t.id) {
			s.defined[s.level][t.id] = true
			s.send(fmt.Sprintf("(declare-const %s %s)", t.name, sortStr(t.w)))
		}
		return t.name
	}
	name := "t" + strconv.Itoa(t.id)
	if s.isDefined(t.id) {
		return name
	}
	args := make([]string, len(t.args))
	for i, a := range t.args {
		args[i] = s.ref(a)
	}
	var body string
	switch t.op {
	case "extract":
		body = fmt.Sprintf("((_ extract %d %d) %s)", t.a, t.b, args[0])
	case "zext":
		body = fmt.Sprintf("((_ zero_extend %d) %s)", t.a, args[0])
	case "sext":
		body = fmt.Sprintf("((_ sign_extend %d) %s)", t.a, args[0])
	default:
		body = "(" + t.op + " " + strings.Join(args, " ") + ")"
	}
	s.defined[s.level][t.id] = true
	s.send(fmt.Sprintf("(define-fun %s () %s %s)", name, sortStr(t.w), body))
	return name
}

func (s *Solver) Assert(t *Term) {
	if t.IsTrue() {
		return
	}
	r := s.ref(t)
	s.send("(assert " + r + ")")
}

func (s *Solver) readLine() string {
	line, err := s.out.ReadString('\n')
	if err != nil {
		s.dead = true
		return "(error \"solver died\")"
	}
	return strings.TrimSpace(line)
}

func (s *Solver) readSexp() string {
	line := s.readLine()
	for strings.Count(line, "(") > strings.Count(line, ")") && !s.dead {
		line += " " + s.readLine()
	}
	return line
}

// Check returns "sat", "unsat" or "unknown".  An unknown / error answer of the live session is
// escalated to one-shot runs of the other back ends on the reconstructed script.
func (s *Solver) Check() string {
	r, _ := s.check(nil)
	return r
}

// CheckModel is Check plus model values for the given terms when the answer is sat.
func (s *Solver) CheckModel(ts []*Term) (string, []uint64) {
	return s.check(ts)
}

func (s *Solver) check(ts []*Term) (string, []uint64) {
	var names []string
	for _, t := range ts {
		names = append(names, s.ref(t))
	}
	t0 := time.Now()
	s.rawOnly("(check-sat)")
	r := s.readLine()
	s.st.add(s.name(), time.Since(t0))
	if r != "sat" && r != "unsat" && s.mirror != nil && !s.dead && !s.mirror.dead {
		t1 := time.Now()
		s.mirror.rawOnly("(check-sat)")
		r2 := s.mirror.readLine()
		s.st.add("z3-mirror", time.Since(t1))
		if r2 == "unsat" {
			return r2, nil
		}
		if r2 == "sat" {
			if len(ts) == 0 {
				return r2, nil
			}
			if vals, ok := s.mirror.getValues(names, ts); ok {
				return r2, vals
			}
		}
	}
	if strings.HasPrefix(r, "(error") {
		s.st.mu.Lock()
		s.st.Errors++
		s.st.mu.Unlock()
	}
	if r == "unsat" {
		return r, nil
	}
	if r == "sat" {
		if len(ts) == 0 {
			return r, nil
		}
		vals, ok := s.getValues(names, ts)
		if !ok {
			return "unknown", nil
		}
		return r, vals
	}
	if s.dead {
		// restart lazily at next Reset; this path is inconclusive
		return "unknown", nil
	}
	if NoEscalate {
		s.st.mu.Lock()
		s.st.Unknown++
		s.st.mu.Unlock()
		return "unknown", nil
	}
	return s.escalate(names, ts)
}

func (s *Solver) getValues(names []string, ts []*Term) ([]uint64, bool) {
	vals := make([]uint64, len(ts))
	// batch in chunks to keep lines manageable
	const chunk = 256
	for i := 0; i < len(names); i += chunk {
		j := i + chunk
		if j > len(names) {
			j = len(names)
		}
		var need []int
		for k := i; k < j; k++ {
			if ts[k].IsConst() {
				vals[k] = ts[k].val
			} else {
				need = append(need, k)
			}
		}
		if len(need) == 0 {
			continue
		}
		var sb strings.Builder
		sb.WriteString("(get-value (")
		for _, k := range need {
			sb.WriteString(names[k])
			sb.WriteByte(' ')
		}
		sb.WriteString("))")
		s.rawOnly(sb.String())
		resp := s.readSexp()
		got, ok := parseValues(resp, len(need))
		if !ok {
			return nil, false
		}
		for n, k := range need {
			vals[k] = got[n]
		}
	}
	return vals, true
}

// parseValues parses "((n1 v1) (n2 v2) ...)" into the list of values.
func parseValues(resp string, n int) ([]uint64, bool) {
	if strings.HasPrefix(resp, "(error") {
		return nil, false
	}
	var out []uint64
	f := strings.Fields(strings.NewReplacer("(", " ", ")", " ").Replace(resp))
	// f alternates name, value; a value may be "_ bvN w" in some printers — handle #x/#b/true/false only
	for i := 0; i+1 < len(f); i += 2 {
		v := f[i+1]
		switch {
		case strings.HasPrefix(v, "#x"):
			u, err := strconv.ParseUint(v[2:], 16, 64)
			if err != nil {
				return nil, false
			}
			out = append(out, u)
		case strings.HasPrefix(v, "#b"):
			u, err := strconv.ParseUint(v[2:], 2, 64)
			if err != nil {
				return nil, false
			}
			out = append(out, u)
		case v == "true":
			out = append(out, 1)
		case v == "false":
			out = append(out, 0)
		default:
			return nil, false
		}
	}
	if len(out) != n {
		return nil, false
	}
	return out, true
}

// script reconstructs the current assertion stack as a flat SMT-LIB script.
func (s *Solver) script() string {
	var sb strings.Builder
	for _, lv := range s.lines {
		for _, l := range lv {
			sb.WriteString(l)
			sb.WriteByte('\n')
		}
	}
	return sb.String()
}

type escResult struct {
	backend string
	res     string
	vals    []uint64
}

// escalate runs the reconstructed script on cvc5 (integer encoding of bit-vectors), z3 4.8.12
// and z3-new with a long timeout, concurrently; the first definitive answer wins.
func (s *Solver) escalate(names []string, ts []*Term) (string, []uint64) {
	s.st.mu.Lock()
	s.st.Escalated++
	s.st.mu.Unlock()
	body := s.script()
	getv := ""
	if len(names) > 0 {
		var need []string
		for k, n := range names {
			if !ts[k].IsConst() {
				need = append(need, n)
			}
		}
		if len(need) > 0 {
			getv = "(get-value (" + strings.Join(need, " ") + "))\n"
		}
	}
	f, err := os.CreateTemp("", "ssasmt-esc-*.smt2")
	if err != nil {
		return "unknown", nil
	}
	defer os.Remove(f.Name())
	fmt.Fprintf(f, "(set-option :produce-models true)\n(set-logic ALL)\n%s(check-sat)\n%s", body, getv)
	f.Close()
	f2, _ := os.CreateTemp("", "ssasmt-esc-*.smt2")
	defer os.Remove(f2.Name())
	fmt.Fprintf(f2, "(set-option :produce-models true)\n%s(check-sat)\n%s", body, getv)
	f2.Close()

	ctx, cancel := context.WithTimeout(context.Background(), time.Duration(EscTimeout)*time.Second)
	defer cancel()
	type be struct {
		name string
		args []string
	}
	bes := []be{
		{"cvc5-bvint", []string{"cvc5", "--solve-bv-as-int=sum", "--produce-models", f.Name()}},
		{"z3-4.8", []string{"z3", f2.Name()}},
		{"z3-new-long", []string{"z3-new", f2.Name()}},
	}
	bes = append(bes, be{"cvc5-bvint-iand", []string{"cvc5", "--solve-bv-as-int=iand", "--produce-models", f.Name()}})
	ch := make(chan escResult, len(bes))
	for _, b := range bes {
		go func(b be) {
			t0 := time.Now()
			out, _ := exec.CommandContext(ctx, b.args[0], b.args[1:]...).Output()
			s.st.add(b.name, time.Since(t0))
			r := escResult{backend: b.name, res: "unknown"}
			txt := string(out)
			lines := strings.SplitN(strings.TrimSpace(txt), "\n", 2)
			first := strings.TrimSpace(lines[0])
			// the verdict is the first output line; an error printed before it (a dropped
			// assertion, a parse error) makes the first line an error line => inconclusive
			if first == "unsat" {
				r.res = "unsat"
			} else if first == "sat" {
				if getv == "" {
					r.res = "sat"
				} else if len(lines) > 1 {
					nNeed := 0
					for k := range ts {
						if !ts[k].IsConst() {
							nNeed++
						}
					}
					if got, ok := parseValues(strings.Join(strings.Fields(lines[1]), " "), nNeed); ok {
						vals := make([]uint64, len(ts))
						n := 0
						for k := range ts {
							if ts[k].IsConst() {
								vals[k] = ts[k].val
							} else {
								vals[k] = got[n]
								n++
							}
						}
						r.res, r.vals = "sat", vals
					}
				}
			}
			ch <- r
		}(b)
	}
	for range bes {
		r := <-ch
		if r.res != "unknown" {
			cancel()
			return r.res, r.vals
		}
	}
	s.st.mu.Lock()
	s.st.Unknown++
	s.st.mu.Unlock()
	return "unknown", nil
}

// CheckWith checks satisfiability of the current assertions plus extra, in a temporary scope.
func (s *Solver) CheckWith(extra *Term) string {
	if extra.IsFalse() {
		return "unsat"
	}
	s.Push()
	s.Assert(extra)
	r := s.Check()
	s.Pop()
	return r
}

// Value returns the model value of a term after a sat answer of the live session.
func (s *Solver) Value(t *Term) (uint64, bool) {
	if t.IsConst() {
		return t.val, true
	}
	r := s.ref(t)
	vals, ok := s.getValues([]string{r}, []*Term{t})
	if !ok {
		return 0, false
	}
	return vals[0], true
}
