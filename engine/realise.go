package main

import (
	"crypto"
	"crypto/ed25519"
	"crypto/sha256"
	"encoding/binary"
)

// evalTerm evaluates t under the assignment a (variable name -> value).  ok=false when a variable is
// unassigned or an operator is not handled.
func evalTerm(t *Term, a map[string]uint64, memo map[*Term]uint64) (uint64, bool) {
	if v, ok := memo[t]; ok {
		return v, true
	}
	var r uint64
	switch t.op {
	case "const":
		r = t.val
	case "var":
		v, ok := a[t.name]
		if !ok {
			return 0, false
		}
		r = v
	default:
		args := make([]uint64, len(t.args))
		for i, x := range t.args {
			v, ok := evalTerm(x, a, memo)
			if !ok {
				return 0, false
			}
			args[i] = v
		}
		w := t.w
		aw := 0
		if len(t.args) > 0 {
			aw = t.args[0].w
		}
		b2u := func(b bool) uint64 {
			if b {
				return 1
			}
			return 0
		}
		switch t.op {
		case "bvadd":
			r = args[0] + args[1]
		case "bvsub":
			r = args[0] - args[1]
		case "bvmul":
			r = args[0] * args[1]
		case "bvand":
			r = args[0] & args[1]
		case "bvor":
			r = args[0] | args[1]
		case "bvxor":
			r = args[0] ^ args[1]
		case "bvnot":
			r = ^args[0]
		case "bvneg":
			r = -args[0]
		case "bvudiv":
			if args[1] == 0 {
				r = mask(w)
			} else {
				r = args[0] / args[1]
			}
		case "bvurem":
			if args[1] == 0 {
				r = args[0]
			} else {
				r = args[0] % args[1]
			}
		case "bvsdiv":
			if args[1] == 0 {
				return 0, false
			}
			r = uint64(sext64(args[0], w) / sext64(args[1], w))
		case "bvsrem":
			if args[1] == 0 {
				return 0, false
			}
			r = uint64(sext64(args[0], w) % sext64(args[1], w))
		case "bvshl":
			if args[1] >= uint64(w) {
				r = 0
			} else {
				r = args[0] << args[1]
			}
		case "bvlshr":
			if args[1] >= uint64(w) {
				r = 0
			} else {
				r = args[0] >> args[1]
			}
		case "bvashr":
			s := args[1]
			if s >= uint64(w) {
				s = uint64(w - 1)
			}
			r = uint64(sext64(args[0], w) >> s)
		case "extract":
			r = args[0] >> uint(t.b)
		case "zext":
			r = args[0]
		case "sext":
			r = uint64(sext64(args[0], aw))
		case "concat":
			r = args[0]<<uint(t.args[1].w) | args[1]
		case "ite":
			if args[0] == 1 {
				r = args[1]
			} else {
				r = args[2]
			}
		case "=":
			r = b2u(args[0] == args[1])
		case "bvult":
			r = b2u(args[0] < args[1])
		case "bvule":
			r = b2u(args[0] <= args[1])
		case "bvslt":
			r = b2u(sext64(args[0], aw) < sext64(args[1], aw))
		case "bvsle":
			r = b2u(sext64(args[0], aw) <= sext64(args[1], aw))
		case "not":
			r = 1 - args[0]
		case "and":
			r = args[0] & args[1]
		case "or":
			r = args[0] | args[1]
		default:
			return 0, false
		}
	}
	if t.w > 0 {
		r &= mask(t.w)
	} else {
		r &= 1
	}
	memo[t] = r
	return r, true
}

func isDrawVar(t *Term) bool {
	return t.op == "var" && len(t.name) > 1 && t.name[0] == 'd' && t.name[1] >= '0' && t.name[1] <= '9'
}

// realise turns an abstract model of a path with signature-predicate applications into one the real
// primitives agree with: for every library-side application of V that the model makes true, whose key and
// signature cells are plain input bytes, a real Ed25519 key pair is generated, the public key is written
// over the key bytes, the message is evaluated under the patched input, signed, and the signature is
// written over the signature bytes.  Returns nil when nothing could be realised.
func (m *Machine) realise(model []drawVal) []drawVal {
	if len(m.sigLog) == 0 {
		return nil
	}
	a := map[string]uint64{}
	for i, d := range m.draws {
		for j, t := range d.terms {
			a[t.name] = model[i].V[j]
		}
	}
	// truth values of the applications under the model: ask the solver (same scope as the model)
	var vs []*Term
	for _, app := range m.sigLog {
		vs = append(vs, app.res)
	}
	res, vals := m.sol().CheckModel(vs)
	if res != "sat" {
		return nil
	}
	changed := false
	keys := map[string]ed25519.PrivateKey{}
	for n, app := range m.sigLog {
		if vals[n] != 1 || !app.lib || (app.alg != "ed25519" && app.alg != "ed25519ph") {
			continue
		}
		key, msg, sig := app.cells[:app.kl], app.cells[app.kl:app.kl+app.ml], app.cells[app.kl+app.ml:]
		ok := len(key) == 32 && len(sig) == 64
		for _, c := range key {
			ok = ok && isDrawVar(c)
		}
		for _, c := range sig {
			ok = ok && isDrawVar(c)
		}
		if !ok {
			continue
		}
		kid := key[0].name
		priv, have := keys[kid]
		if !have {
			var seed [32]byte
			binary.BigEndian.PutUint64(seed[:], uint64(n)+1)
			h := sha256.Sum256(seed[:])
			priv = ed25519.NewKeyFromSeed(h[:])
			keys[kid] = priv
		}
		for i, c := range key {
			a[c.name] = uint64(priv[32+i])
		}
		memo := map[*Term]uint64{}
		mb := make([]byte, len(msg))
		good := true
		for i, c := range msg {
			v, ok := evalTerm(c, a, memo)
			if !ok {
				good = false
				break
			}
			mb[i] = byte(v)
		}
		if !good {
			continue
		}
		var sg []byte
		if app.alg == "ed25519" {
			sg = ed25519.Sign(priv, mb)
		} else {
			var err error
			sg, err = priv.Sign(nil, mb, &ed25519.Options{Hash: crypto.SHA512})
			if err != nil {
				continue
			}
		}
		for i, c := range sig {
			a[c.name] = uint64(sg[i])
		}
		changed = true
	}
	if !changed {
		return nil
	}
	out := make([]drawVal, len(model))
	for i, d := range m.draws {
		out[i] = drawVal{Kind: model[i].Kind, V: make([]uint64, len(d.terms))}
		for j, t := range d.terms {
			out[i].V[j] = a[t.name]
		}
	}
	return out
}
