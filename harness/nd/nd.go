// Package nd is the "nondet" API of the verification harnesses.
//
// Under the symbolic executor (/verif/engine) every function of this package is intercepted:
// draws become symbolic values, Assume extends the path condition, Assert becomes a solver
// query.  Compiled natively, the same functions replay a recorded counterexample (or a recorded
// passing path): draws return the recorded values in order, Assert(false) stops the run and is
// reported by the replay runner.
package nd

import (
	"time"

	"crypto"
	"crypto/ed25519"
	"crypto/sha256"
	"fmt"

	"github.com/go-i2p/crypto/dsa"
	"github.com/go-i2p/crypto/ecdsa"
	"go.step.sm/crypto/x25519"
)

// Draw is one recorded draw.
type Draw struct {
	K string   `json:"k"`
	V []uint64 `json:"v"`
}

// Obs is one observed value.
type Obs struct {
	Label string   `json:"label"`
	V     []uint64 `json:"v"`
}

// State is the native replay state.
type State struct {
	Draws    []Draw
	pos      int
	Thorough bool
	Roomy    bool
	Covers   map[string]bool
	Observed []Obs
}

// AssertFail is the panic value of a failed Assert.
type AssertFail struct{ Label string }

// Diverged is the panic value used when the native run asks for a draw the recording does not
// have (the native run left the path the solver model was computed for).
type Diverged struct{ Msg string }

// AssumeFail is the panic value of a failed Assume.
type AssumeFail struct{}

var cur *State

// Begin installs a replay state.
func Begin(s *State) {
	s.Covers = map[string]bool{}
	s.pos = 0
	cur = s
}

// End removes the replay state and returns it.
func End() *State { s := cur; cur = nil; return s }

func next(kind string) Draw {
	if cur == nil {
		panic(Diverged{"nd used outside a replay"})
	}
	if cur.pos >= len(cur.Draws) {
		panic(Diverged{fmt.Sprintf("draw %d (%s) not recorded", cur.pos, kind)})
	}
	d := cur.Draws[cur.pos]
	cur.pos++
	if d.K != kind {
		panic(Diverged{fmt.Sprintf("draw %d is %s, harness asked for %s", cur.pos-1, d.K, kind)})
	}
	return d
}

func nextInt() uint64 {
	d := next("int")
	if len(d.V) != 1 {
		panic(Diverged{"malformed int draw"})
	}
	return d.V[0]
}

// Bytes returns n arbitrary bytes.
func Bytes(n int) []byte {
	d := next("bytes")
	if len(d.V) != n {
		panic(Diverged{fmt.Sprintf("bytes draw has length %d, harness asked for %d", len(d.V), n)})
	}
	b := make([]byte, n)
	for i, v := range d.V {
		b[i] = byte(v)
	}
	return b
}

// String returns an arbitrary string of n bytes.
func String(n int) string { return string(Bytes(n)) }

func Byte() byte     { return byte(nextInt()) }
func Uint16() uint16 { return uint16(nextInt()) }
func Uint32() uint32 { return uint32(nextInt()) }
func Uint64() uint64 { return nextInt() }
func Int() int       { return int(nextInt()) }
func Int64() int64   { return int64(nextInt()) }
func Bool() bool     { return nextInt() != 0 }

// IntRange returns an arbitrary value in [lo,hi]; the executor explores every one.
func IntRange(lo, hi int) int {
	v := int(nextInt())
	if v < lo || v > hi {
		panic(Diverged{"IntRange value outside range"})
	}
	return v
}

// Thorough reports whether the thorough tier is running (bounds only, never the oracle).
func Thorough() bool { return cur != nil && cur.Thorough }

// Roomy reports whether the executor runs under the roomy append-growth policy.
func Roomy() bool { return cur != nil && cur.Roomy }

// Assume restricts the inputs considered.
func Assume(c bool) {
	if !c {
		panic(AssumeFail{})
	}
}

// Assert states the property.
func Assert(c bool, label string) {
	if !c {
		panic(AssertFail{label})
	}
}

// Cover is a reachability witness.
func Cover(label string) {
	if cur != nil {
		cur.Covers[label] = true
	}
}

// Expect declares that the witness label has to be covered on some path of this harness (a shape of a
// grid that is never accepted is a vacuous case); the executor reports labels that were expected but
// never covered.  Natively a no-op.
func Expect(label string) {}

// Havoc overwrites every byte of b with an arbitrary value.
func Havoc(b []byte) {
	d := next("havoc")
	if len(d.V) != len(b) {
		panic(Diverged{"havoc length"})
	}
	for i, v := range d.V {
		b[i] = byte(v)
	}
}

// Freeze marks every object that exists now as "pre-existing": the executor reports any later
// write to one of them (C18).  Natively a no-op.
func Freeze() {}

// Thaw ends the effect of Freeze.
func Thaw() {}

// Called reports whether the named stub was reached on this path (executor only; natively false).
func Called(name string) bool { return false }

// Hash is the independent hash oracle: the ideal hash under the executor, SHA-256 natively.
func Hash(b []byte) [32]byte { return sha256.Sum256(b) }

// ObserveBytes / ObserveInt / ObserveBool record a value; on replay of a passing path the native value is
// compared with the value the executor computed for the same input (translator validation).
func ObserveBytes(label string, b []byte) {
	if cur == nil {
		return
	}
	o := Obs{Label: label, V: make([]uint64, len(b))}
	for i, x := range b {
		o.V[i] = uint64(x)
	}
	cur.Observed = append(cur.Observed, o)
}

func ObserveInt(label string, v int) {
	if cur != nil {
		cur.Observed = append(cur.Observed, Obs{Label: label, V: []uint64{uint64(v)}})
	}
}

func ObserveBool(label string, v bool) {
	if cur != nil {
		x := uint64(0)
		if v {
			x = 1
		}
		cur.Observed = append(cur.Observed, Obs{Label: label, V: []uint64{x}})
	}
}

// Ed25519Key returns an arbitrary Ed25519 key pair (64-byte private key = seed || public key, and the
// public key).  Under the executor the seed is a draw and the public half is a fresh symbol tied to the
// private key; natively the pair is derived from the recorded seed.
func Ed25519Key() (priv []byte, pub []byte) {
	seed := Bytes(32)
	k := ed25519.NewKeyFromSeed(seed)
	return []byte(k), []byte(k[32:])
}

// SigValid is the independent signature oracle: the uninterpreted validity predicate V(alg,key,msg,sig)
// under the executor (the same predicate the library's verification stubs evaluate), the real primitive
// natively.
func SigValid(alg string, key, msg, sig []byte) bool {
	switch alg {
	case "ed25519":
		return len(key) == ed25519.PublicKeySize && ed25519.Verify(ed25519.PublicKey(key), msg, sig)
	case "ed25519ph":
		return len(key) == ed25519.PublicKeySize &&
			ed25519.VerifyWithOptions(ed25519.PublicKey(key), msg, sig, &ed25519.Options{Hash: crypto.SHA512}) == nil
	case "dsa":
		if len(key) != 128 {
			return false
		}
		var k dsa.DSAPublicKey
		copy(k[:], key)
		return k.Verify(msg, sig) == nil
	case "ecdsa-p256":
		if len(key) != 64 {
			return false
		}
		var k ecdsa.ECP256PublicKey
		copy(k[:], key)
		return k.Verify(msg, sig) == nil
	case "ecdsa-p384":
		if len(key) != 96 {
			return false
		}
		var k ecdsa.ECP384PublicKey
		copy(k[:], key)
		return k.Verify(msg, sig) == nil
	}
	return false
}

// And / Or / Implies combine conditions without short-circuit control flow: under the executor the result is
// one term instead of a fork per operand (Go's && and || compile to branches).
func And(a, b bool) bool     { return a && b }
func Or(a, b bool) bool      { return a || b }
func Implies(a, b bool) bool { return !a || b }

// AssumeHashInjective adds, under the executor, the assumption that the ideal hash maps different inputs
// to different digests (collision freedom of SHA-256 is assumed, not checked).  Natively a no-op.
func AssumeHashInjective() {}

// NowUnix is the clock in Unix seconds: the symbolic base instant of the stubbed time.Now under the
// executor (any instant 2001..2096; each later time.Now() call is at most one hour after it), the real
// clock natively.  Harnesses derive "a day ago" from it instead of from input bytes, so that symbolic and
// native runs stay aligned.
func NowUnix() int64 { return time.Now().Unix() }

// Context names the case a generated sweep is in (type.method); it becomes part of the fingerprint of a panic
// found there, so that two methods failing at the same site are two findings.  Natively a no-op.
func Context(label string) {}

// X25519Key returns an arbitrary X25519 key pair (32-byte private key, 32-byte public key): under the executor
// the private key is a draw and the public key the ideal function of it; natively the public key is computed.
func X25519Key() (priv []byte, pub []byte) {
	priv = Bytes(32)
	p, err := x25519.PrivateKey(priv).PublicKey()
	if err != nil {
		panic(Diverged{"x25519 public key: " + err.Error()})
	}
	return priv, []byte(p)
}
