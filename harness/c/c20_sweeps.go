package c

import (
	"verifh/nd"

	"github.com/go-i2p/common/certificate"
	"github.com/go-i2p/common/data"
	"github.com/go-i2p/common/destination"
	"github.com/go-i2p/common/encrypted_leaseset"
	"github.com/go-i2p/common/key_certificate"
	"github.com/go-i2p/common/keys_and_cert"
	"github.com/go-i2p/common/lease"
	"github.com/go-i2p/common/lease_set"
	"github.com/go-i2p/common/lease_set2"
	"github.com/go-i2p/common/meta_leaseset"
	"github.com/go-i2p/common/offline_signature"
	"github.com/go-i2p/common/router_address"
	"github.com/go-i2p/common/router_identity"
	"github.com/go-i2p/common/router_info"
	"github.com/go-i2p/common/signature"
)

// H_C20_ZeroValues: every (exported type, exported method) pair of the current API on the zero value: no panic, and verification does not report success.  The pairs are enumerated completely by the generator (bin/check regenerates them from /repo's current API).
//
//verif:props C20
//verif:fanout 400
func H_C20_ZeroValues() {
	t := nd.IntRange(0, nSweptTypes-1)
	ok := zeroValueSweep(t)
	nd.Assert(!ok, "zero-value/verification-does-not-report-success")
}

// cutPoints returns truncation lengths for an encoding of length total: around every listed boundary, a few
// interior points and the ends.
func cutPoints(total int, bounds ...int) []int {
	cs := []int{0, 1, total / 2, total - 1}
	for _, b := range bounds {
		cs = append(cs, b-1, b)
		if nd.Thorough() {
			cs = append(cs, b+1)
		}
	}
	var out []int
	for _, c := range cs {
		if c >= 0 && c < total {
			out = append(out, c)
		}
	}
	return out
}

// H_C20_FailedParse: the value a parser returns together with an error (truncated well-formed encodings, content symbolic) is safe to touch: every exported method returns normally and verification does not succeed.
//
//verif:props C20 C04
//verif:witness failed
//verif:fanout 400
func H_C20_FailedParse() {
	switch nd.IntRange(0, 8) {
	case 7:
		// keys-and-cert readers (generic and key-type-specific) on encodings cut inside the certificate
		kinds := [][2]int{{7, 0}, {7, 4}}
		kd := kinds[nd.IntRange(0, 1)]
		in := nd.Bytes(391)
		pinDest(in, 0, kd[0], kd[1], 0)
		k := nd.IntRange(383, 390)
		var v *keys_and_cert.KeysAndCert
		var err error
		switch nd.IntRange(0, 2) {
		case 0:
			v, _, err = keys_and_cert.ReadKeysAndCert(in[:k])
		case 1:
			v, _, err = keys_and_cert.ReadKeysAndCertElgAndEd25519(in[:k])
		case 2:
			v, _, err = keys_and_cert.ReadKeysAndCertX25519AndEd25519(in[:k])
		}
		if err == nil || v == nil {
			return
		}
		nd.Cover("failed")
		sweep_keys_and_cert_KeysAndCert(v, nd.IntRange(0, n_sweep_keys_and_cert_KeysAndCert-1))
	case 8:
		in := nd.Bytes(391)
		pinDest(in, 0, 7, 4, 0)
		k := nd.IntRange(383, 390)
		if nd.Bool() {
			d, _, err := destination.ReadDestination(in[:k])
			if err == nil {
				return
			}
			nd.Cover("failed")
			sweep_destination_Destination(&d, nd.IntRange(0, n_sweep_destination_Destination-1))
		} else {
			r, _, err := router_identity.ReadRouterIdentity(in[:k])
			if err == nil || r == nil {
				return
			}
			nd.Cover("failed")
			sweep_router_identity_RouterIdentity(r, nd.IntRange(0, n_sweep_router_identity_RouterIdentity-1))
		}
	case 0:
		s := ls2Shapes()[nd.IntRange(0, 1)]
		in, total := s.build()
		cs := cutPoints(total, 391, 399, total-64)
		k := cs[nd.IntRange(0, len(cs)-1)]
		v, _, err := lease_set2.ReadLeaseSet2(in[:k])
		if err == nil {
			return
		}
		nd.Cover("failed")
		ok := sweep_lease_set2_LeaseSet2(&v, nd.IntRange(0, n_sweep_lease_set2_LeaseSet2-1))
		nd.Assert(!ok, "failed-parse/ls2-verify-not-success")
	case 1:
		s := metaShapes()[nd.IntRange(0, 1)]
		in, total := s.build()
		cs := cutPoints(total, 391, 399, total-64)
		k := cs[nd.IntRange(0, len(cs)-1)]
		v, _, err := meta_leaseset.ReadMetaLeaseSet(in[:k])
		if err == nil {
			return
		}
		nd.Cover("failed")
		ok := sweep_meta_leaseset_MetaLeaseSet(&v, nd.IntRange(0, n_sweep_meta_leaseset_MetaLeaseSet-1))
		nd.Assert(!ok, "failed-parse/meta-verify-not-success")
	case 2:
		s := encShapes()[nd.IntRange(0, 1)]
		in, total := s.build()
		cs := cutPoints(total, 34, 42, total-64)
		k := cs[nd.IntRange(0, len(cs)-1)]
		v, _, err := encrypted_leaseset.ReadEncryptedLeaseSet(in[:k])
		if err == nil {
			return
		}
		nd.Cover("failed")
		ok := sweep_encrypted_leaseset_EncryptedLeaseSet(&v, nd.IntRange(0, n_sweep_encrypted_leaseset_EncryptedLeaseSet-1))
		nd.Assert(!ok, "failed-parse/enc-verify-not-success")
	case 3:
		s := riShapes()[nd.IntRange(0, 1)]
		in, total := s.build()
		cs := cutPoints(total, 391, 399, 400, total-64)
		k := cs[nd.IntRange(0, len(cs)-1)]
		v, _, err := router_info.ReadRouterInfo(in[:k])
		if err == nil {
			return
		}
		nd.Cover("failed")
		ok := sweep_router_info_RouterInfo(&v, nd.IntRange(0, n_sweep_router_info_RouterInfo-1))
		nd.Assert(!ok, "failed-parse/ri-verify-not-success")
	case 4:
		in := nd.Bytes(nd.IntRange(0, 13))
		v, _, err := router_address.ReadRouterAddress(in)
		if err == nil {
			return
		}
		nd.Cover("failed")
		sweep_router_address_RouterAddress(&v, nd.IntRange(0, n_sweep_router_address_RouterAddress-1))
	case 5:
		in := nd.Bytes([]int{0, 5, 6, 37, 38, 101}[nd.IntRange(0, 5)])
		nd.Assume(len(in) < 6 || (in[4] == 0 && in[5] == 7))
		v, _, err := offline_signature.ReadOfflineSignature(in, 7)
		if err == nil {
			return
		}
		nd.Cover("failed")
		ok := sweep_offline_signature_OfflineSignature(&v, nd.IntRange(0, n_sweep_offline_signature_OfflineSignature-1))
		nd.Assert(!ok, "failed-parse/offline-verify-not-success")
	case 6:
		in := nd.Bytes(nd.IntRange(0, 9))
		v, _, errs := data.ReadMapping(in)
		if len(errs) == 0 {
			return
		}
		nd.Cover("failed")
		sweep_data_Mapping(&v, nd.IntRange(0, n_sweep_data_Mapping-1))
	}
}

// pinnedIdentity returns a symbolic keys-and-cert input of one of four pinned kinds (the free-typed input
// would multiply ~280 parse paths by the number of methods).
func pinnedIdentity() []byte {
	kinds := [][3]int{{7, 4, 0}, {7, 0, 1}, {-1, 0, 0}, {1, 0, 0}}
	k := kinds[nd.IntRange(0, len(kinds)-1)]
	in := nd.Bytes(kacN)
	pinDest(in, 0, k[0], k[1], k[2])
	return in
}

// H_C04_Methods: every exported method of every value a parser returned WITHOUT error returns normally (values from the C01 shapes and free-form small inputs; method arguments are nd draws).
//
//verif:props C04
//verif:witness swept
//verif:fanout 400
func H_C04_Methods() {
	which := nd.IntRange(0, 14)
	covShape("case", which)
	switch which {
	case 14:
		// String()-style formatting on concrete content (all-zero bytes with the shape's pins): structure-
		// dependent failures (nil fields, lengths) are found, content-dependent formatting is outside the claim
		formattingSweep()
	case 0:
		c, _, err := certificate.ReadCertificate(nd.Bytes(nd.IntRange(3, 8)))
		if err == nil {
			nd.Cover("swept")
			sweep_certificate_Certificate(c, nd.IntRange(0, n_sweep_certificate_Certificate-1))
		}
	case 1:
		c, _, err := key_certificate.NewKeyCertificate(nd.Bytes(nd.IntRange(7, 9)))
		if err == nil {
			nd.Cover("swept")
			sweep_key_certificate_KeyCertificate(c, nd.IntRange(0, n_sweep_key_certificate_KeyCertificate-1))
		}
	case 2:
		k, _, err := keys_and_cert.ReadKeysAndCert(pinnedIdentity())
		if err == nil {
			nd.Cover("swept")
			sweep_keys_and_cert_KeysAndCert(k, nd.IntRange(0, n_sweep_keys_and_cert_KeysAndCert-1))
		}
	case 3:
		d, _, err := destination.ReadDestination(pinnedIdentity())
		if err == nil {
			nd.Cover("swept")
			sweep_destination_Destination(&d, nd.IntRange(0, n_sweep_destination_Destination-1))
		}
	case 4:
		r, _, err := router_identity.ReadRouterIdentity(pinnedIdentity())
		if err == nil {
			nd.Cover("swept")
			sweep_router_identity_RouterIdentity(r, nd.IntRange(0, n_sweep_router_identity_RouterIdentity-1))
		}
	case 5:
		in, _ := ls2Shapes()[[]int{0, 3, 8}[nd.IntRange(0, 2)]].build()
		v, _, err := lease_set2.ReadLeaseSet2(in)
		if err == nil {
			nd.Cover("swept")
			sweep_lease_set2_LeaseSet2(&v, nd.IntRange(0, n_sweep_lease_set2_LeaseSet2-1))
		}
	case 6:
		mis := []int{0, 2}
		if nd.Thorough() {
			mis = []int{0, 1, 2, 4}
		}
		in, _ := metaShapes()[mis[nd.IntRange(0, len(mis)-1)]].build()
		v, _, err := meta_leaseset.ReadMetaLeaseSet(in)
		if err == nil {
			nd.Cover("swept")
			sweep_meta_leaseset_MetaLeaseSet(&v, nd.IntRange(0, n_sweep_meta_leaseset_MetaLeaseSet-1))
			if v.NumEntries() > 0 {
				e := v.Entries()[0]
				sweep_meta_leaseset_MetaLeaseSetEntry(&e, nd.IntRange(0, n_sweep_meta_leaseset_MetaLeaseSetEntry-1))
			}
		}
	case 7:
		in, _ := encShapes()[nd.IntRange(0, 2)].build()
		v, _, err := encrypted_leaseset.ReadEncryptedLeaseSet(in)
		if err == nil {
			nd.Cover("swept")
			sweep_encrypted_leaseset_EncryptedLeaseSet(&v, nd.IntRange(0, n_sweep_encrypted_leaseset_EncryptedLeaseSet-1))
		}
	case 8:
		in, _ := lsShapes()[nd.IntRange(0, 2)].build()
		v, err := lease_set.ReadLeaseSet(in)
		if err == nil {
			nd.Cover("swept")
			sweep_lease_set_LeaseSet(&v, nd.IntRange(0, n_sweep_lease_set_LeaseSet-1))
		}
	case 9:
		ris := []int{0, 1}
		if nd.Thorough() {
			ris = []int{0, 1, 2, 3}
		}
		in, _ := riShapes()[ris[nd.IntRange(0, len(ris)-1)]].build()
		v, _, err := router_info.ReadRouterInfo(in)
		if err == nil {
			nd.Cover("swept")
			sweep_router_info_RouterInfo(&v, nd.IntRange(0, n_sweep_router_info_RouterInfo-1))
		}
	case 10:
		v, _, err := router_address.ReadRouterAddress(nd.Bytes(nd.IntRange(12, 14)))
		if err == nil {
			nd.Cover("swept")
			sweep_router_address_RouterAddress(&v, nd.IntRange(0, n_sweep_router_address_RouterAddress-1))
		}
	case 11:
		v, _, errs := data.ReadMapping(nd.Bytes(nd.IntRange(2, 8)))
		if len(errs) == 0 {
			nd.Cover("swept")
			sweep_data_Mapping(&v, nd.IntRange(0, n_sweep_data_Mapping-1))
			vals := v.Values()
			sweep_data_MappingValues(&vals, nd.IntRange(0, n_sweep_data_MappingValues-1))
		}
	case 12:
		in := nd.Bytes(6 + 32 + 64 + 1)
		pin(in, 4, 0, 7)
		v, _, err := offline_signature.ReadOfflineSignature(in, 7)
		if err == nil {
			nd.Cover("swept")
			sweep_offline_signature_OfflineSignature(&v, nd.IntRange(0, n_sweep_offline_signature_OfflineSignature-1))
		}
	case 13:
		switch nd.IntRange(0, 4) {
		case 0:
			v, _, err := signature.ReadSignature(nd.Bytes(65), 7)
			if err == nil {
				sweep_signature_Signature(&v, nd.IntRange(0, n_sweep_signature_Signature-1))
			}
		case 1:
			v, _, err := lease.ReadLease(nd.Bytes(44))
			if err == nil {
				sweep_lease_Lease(&v, nd.IntRange(0, n_sweep_lease_Lease-1))
			}
		case 2:
			v, _, err := lease.ReadLease2(nd.Bytes(40))
			if err == nil {
				sweep_lease_Lease2(&v, nd.IntRange(0, n_sweep_lease_Lease2-1))
			}
		case 3:
			v, _, err := data.ReadI2PString(nd.Bytes(nd.IntRange(1, 4)))
			if err == nil {
				sweep_data_I2PString(&v, nd.IntRange(0, n_sweep_data_I2PString-1))
			}
		case 4:
			v, _ := data.ReadInteger(nd.Bytes([]int{0, 1, 8, 9}[nd.IntRange(0, 3)]), []int{1, 8}[nd.IntRange(0, 1)])
			sweep_data_Integer(&v, nd.IntRange(0, n_sweep_data_Integer-1))
			d, _, err := data.ReadDate(nd.Bytes(8))
			if err == nil {
				sweep_data_Date(&d, nd.IntRange(0, n_sweep_data_Date-1))
			}
		}
	}
}

func zeroPinned(n int, pins map[int]byte) []byte {
	b := make([]byte, n)
	for i, v := range pins {
		b[i] = v
	}
	return b
}

func formattingSweep() {
	switch nd.IntRange(0, 6) {
	case 0:
		in := zeroPinned(391+8+1+1+2+64, map[int]byte{384: 5, 386: 4, 388: 7, 390: 4})
		v, _, err := router_info.ReadRouterInfo(in)
		if err == nil {
			nd.Cover("swept")
			_ = v.String()
		}
	case 1:
		in := zeroPinned(391, map[int]byte{384: 5, 386: 4, 388: 7, 390: 4})
		v, _, err := router_identity.ReadRouterIdentity(in)
		if err == nil {
			_ = v.String()
		}
	case 2:
		in := zeroPinned(6+32+64, map[int]byte{5: 7, 3: 1})
		v, _, err := offline_signature.ReadOfflineSignature(in, 7)
		if err == nil {
			_ = v.String()
		}
	case 3:
		in := zeroPinned(12, map[int]byte{9: 0})
		v, _, err := router_address.ReadRouterAddress(in)
		if err == nil {
			_ = v.String()
		}
	case 4:
		v, _, err := signature.ReadSignature(make([]byte, 64), 7)
		if err == nil {
			_ = v.String()
		}
	case 5:
		h, _, err := data.ReadHash(make([]byte, 32))
		if err == nil {
			_ = h.String()
		}
	case 6:
		in := zeroPinned(391+8+1+9+1+2+1+2+64, map[int]byte{384: 5, 386: 4, 388: 7, 390: 4, 399: 1})
		v, _, err := router_info.ReadRouterInfo(in)
		if err == nil {
			_ = v.String()
		}
	}
}

// laterCut draws a truncation length: every second length from `from` to total-1 (thorough: every length), the last
// two, and a few earlier ones.
func laterCut(total, from int) int {
	cs := []int{0, 1, from / 2}
	for k := from; k < total; k++ {
		if nd.Thorough() || (k-from)%2 == 0 || k >= total-2 {
			cs = append(cs, k)
		}
	}
	return cs[nd.IntRange(0, len(cs)-1)]
}

// H_C20_FailedParseDense: as H_C20_FailedParse, at every second (thorough: every) truncation length after the destination / blinded key (where
// parsers have stored some fields and not others), with shapes that carry long transient keys and long payloads, and
// CONCRETE content (zero bytes plus the shape's pinned fields: an enumeration of cut point x method by the executor;
// symbolic content at sampled cut points is H_C20_FailedParse's part); one exported method per path.
//
//verif:props C20 C04
//verif:witness failed
//verif:fanout 1000
func H_C20_FailedParseDense() {
	concreteShapes = true
	defer func() { concreteShapes = false }()
	which := nd.IntRange(0, 4)
	covShape("case", which)
	switch which {
	case 0:
		shapes := []ls2Shape{{7, 4, 0, -1, 0, []int{32}, 1, 0}, {7, 4, 0, 1, 0, []int{32}, 1, 0}}
		s := shapes[nd.IntRange(0, len(shapes)-1)]
		in, total := s.build()
		v, _, err := lease_set2.ReadLeaseSet2(in[:laterCut(total, 389)])
		if err == nil {
			return
		}
		nd.Cover("failed")
		ok := sweep_lease_set2_LeaseSet2(&v, nd.IntRange(0, n_sweep_lease_set2_LeaseSet2-1))
		nd.Assert(!ok, "failed-parse-dense/ls2-verify-not-success")
	case 1:
		shapes := []metaShape{{7, 4, 0, -1, 0, []int{0}, 0}, {7, 4, 0, 1, 0, []int{0}, 0}}
		if nd.Thorough() {
			shapes = append(shapes, metaShape{7, 4, 0, 0, 0, []int{0}, 0})
		}
		s := shapes[nd.IntRange(0, len(shapes)-1)]
		in, total := s.build()
		v, _, err := meta_leaseset.ReadMetaLeaseSet(in[:laterCut(total, 389)])
		if err == nil {
			return
		}
		nd.Cover("failed")
		ok := sweep_meta_leaseset_MetaLeaseSet(&v, nd.IntRange(0, n_sweep_meta_leaseset_MetaLeaseSet-1))
		nd.Assert(!ok, "failed-parse-dense/meta-verify-not-success")
	case 2:
		shapes := []encShape{{11, -1, 100, 0}, {11, 1, 61, 0}, {7, -1, 61, 0}}
		s := shapes[nd.IntRange(0, len(shapes)-1)]
		in, total := s.build()
		v, _, err := encrypted_leaseset.ReadEncryptedLeaseSet(in[:laterCut(total, 32)])
		if err == nil {
			return
		}
		nd.Cover("failed")
		ok := sweep_encrypted_leaseset_EncryptedLeaseSet(&v, nd.IntRange(0, n_sweep_encrypted_leaseset_EncryptedLeaseSet-1))
		nd.Assert(!ok, "failed-parse-dense/enc-verify-not-success")
	case 3:
		in, total := riShape{7, 4, 0, []raShape{{2, 0}}, 0, 0}.build()
		v, _, err := router_info.ReadRouterInfo(in[:laterCut(total, 389)])
		if err == nil {
			return
		}
		nd.Cover("failed")
		ok := sweep_router_info_RouterInfo(&v, nd.IntRange(0, n_sweep_router_info_RouterInfo-1))
		nd.Assert(!ok, "failed-parse-dense/ri-verify-not-success")
	case 4:
		in, total := lsShape{7, 0, 0, 1, 0}.build()
		in[391+255] = 2 // ElGamal key inside the certainly-valid region
		v, err := lease_set.ReadLeaseSet(in[:laterCut(total, 389)])
		if err == nil {
			return
		}
		nd.Cover("failed")
		ok := sweep_lease_set_LeaseSet(&v, nd.IntRange(0, n_sweep_lease_set_LeaseSet-1))
		nd.Assert(!ok, "failed-parse-dense/ls-verify-not-success")
	}
}
