package c

import (
	"encoding/json"
	"flag"
	"fmt"
	"os"
	"path/filepath"
	"sort"
	"strings"
	"testing"
	"time"

	"verifh/nd"
)

var replayPath = flag.String("replay", "", "replay file or directory of replay files")

type replayFile struct {
	Property string    `json:"property"`
	Harness  string    `json:"harness"`
	Kind     string    `json:"kind"`
	Label    string    `json:"label"`
	Detail   string    `json:"detail"`
	Thorough bool      `json:"thorough"`
	Roomy    bool      `json:"roomy"`
	Draws    []nd.Draw `json:"draws"`
	Observes []nd.Obs  `json:"observes"`
}

type outcome struct {
	kind   string // returned, assert, assume, diverged, panic, hang
	detail string
	st     *nd.State
}

func runOne(rf *replayFile) outcome {
	fn, ok := Registry[rf.Harness]
	if !ok {
		return outcome{kind: "diverged", detail: "unknown harness " + rf.Harness}
	}
	ch := make(chan outcome, 1)
	go func() {
		st := &nd.State{Draws: rf.Draws, Thorough: rf.Thorough, Roomy: rf.Roomy}
		nd.Begin(st)
		defer func() {
			nd.End()
			if r := recover(); r != nil {
				switch x := r.(type) {
				case nd.AssertFail:
					ch <- outcome{kind: "assert", detail: x.Label, st: st}
				case nd.AssumeFail:
					ch <- outcome{kind: "assume", st: st}
				case nd.Diverged:
					ch <- outcome{kind: "diverged", detail: x.Msg, st: st}
				default:
					ch <- outcome{kind: "panic", detail: strings.ReplaceAll(fmt.Sprint(r), "\n", " "), st: st}
				}
				return
			}
			ch <- outcome{kind: "returned", st: st}
		}()
		fn()
	}()
	select {
	case o := <-ch:
		return o
	case <-time.After(20 * time.Second):
		return outcome{kind: "hang", detail: "no return within 20s"}
	}
}

// matches reports whether the native outcome is the recorded one.
func matches(rf *replayFile, o outcome) bool {
	switch rf.Kind {
	case "assert":
		return o.kind == "assert" && o.detail == rf.Label
	case "panic":
		return o.kind == "panic" || o.kind == "hang"
	case "pass":
		if o.kind != "returned" {
			return false
		}
		if o.st == nil || len(rf.Observes) == 0 {
			return true
		}
		if len(o.st.Observed) != len(rf.Observes) {
			return false
		}
		for i, e := range rf.Observes {
			n := o.st.Observed[i]
			if n.Label != e.Label || fmt.Sprint(n.V) != fmt.Sprint(e.V) {
				return false
			}
		}
		return true
	}
	return true
}

// TestReplay re-runs recorded solver models against the real, natively compiled code.
// Output: one line "REPLAY <file> <STATUS> <detail>" per file.
func TestReplay(t *testing.T) {
	if *replayPath == "" {
		t.Skip("no -replay given")
	}
	var files []string
	if fi, err := os.Stat(*replayPath); err == nil && fi.IsDir() {
		files, _ = filepath.Glob(filepath.Join(*replayPath, "*.json"))
		sort.Strings(files)
	} else {
		files = []string{*replayPath}
	}
	for _, f := range files {
		b, err := os.ReadFile(f)
		if err != nil {
			fmt.Printf("REPLAY %s ERROR %v\n", f, err)
			continue
		}
		var rf replayFile
		if err := json.Unmarshal(b, &rf); err != nil {
			fmt.Printf("REPLAY %s ERROR %v\n", f, err)
			continue
		}
		o := runOne(&rf)
		// Go randomises map iteration order: a counterexample (or a recorded passing path) that depends on one
		// order the executor explored is re-run a few times before it is reported as not reproducing.
		for try := 0; try < 24 && !matches(&rf, o); try++ {
			o = runOne(&rf)
		}
		status, detail := "NOT-REPRODUCED", o.kind+" "+o.detail
		switch rf.Kind {
		case "assert":
			if o.kind == "assert" && o.detail == rf.Label {
				status = "REPRODUCED"
			}
		case "panic":
			if o.kind == "panic" || o.kind == "hang" {
				status = "REPRODUCED"
			}
		case "pass":
			if o.kind == "returned" {
				status, detail = "OK", ""
				if o.st != nil && len(rf.Observes) > 0 {
					if len(o.st.Observed) != len(rf.Observes) {
						status, detail = "MISMATCH", fmt.Sprintf("observe count native=%d executor=%d", len(o.st.Observed), len(rf.Observes))
					} else {
						for i, e := range rf.Observes {
							n := o.st.Observed[i]
							if n.Label != e.Label || fmt.Sprint(n.V) != fmt.Sprint(e.V) {
								status, detail = "MISMATCH", fmt.Sprintf("observe %q native=%v executor=%v", e.Label, n.V, e.V)
								break
							}
						}
					}
				}
			} else {
				status = "MISMATCH"
			}
		default:
			status = "SKIPPED"
		}
		fmt.Printf("REPLAY %s %s %s\n", f, status, detail)
		if testing.Verbose() || os.Getenv("REPLAY_VERBOSE") != "" {
			fmt.Printf("   harness=%s kind=%s label=%s native-outcome=%s %s\n", rf.Harness, rf.Kind, rf.Label, o.kind, o.detail)
		}
	}
}
