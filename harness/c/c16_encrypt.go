package c

import (
	"bytes"
	"crypto/ed25519"
	"time"

	"verifh/nd"

	"github.com/go-i2p/common/data"
	"github.com/go-i2p/common/destination"
	"github.com/go-i2p/common/encrypted_leaseset"
	"github.com/go-i2p/common/lease"
	"github.com/go-i2p/common/lease_set2"
	"github.com/go-i2p/common/offline_signature"
	"github.com/go-i2p/crypto/kdf"
)

// H_C16_EncryptDecrypt: EncryptInnerLeaseSet2 then DecryptInnerData with the matching X25519 private key returns a LeaseSet2 with identical bytes; another private key, or a modified ciphertext byte (ephemeral key, nonce, ciphertext, tag regions), yields an error and no value.  Idealised primitives (DH commutes, HKDF injective, ideal AEAD).
//
//verif:props C16
//verif:fanout 1500
//verif:witness decrypted wrong-key tampered
func H_C16_EncryptDecrypt() {
	var ls lease_set2.LeaseSet2
	nk := 1
	if nd.Bool() {
		// a LeaseSet2 obtained from the wire parser (plain, or with an Ed25519 transient key)
		shapes := ls2Shapes()
		s := shapes[[]int{0, 3}[nd.IntRange(0, 1)]]
		in, total := s.build()
		v, _, err := lease_set2.ReadLeaseSet2(in)
		nd.Assume(err == nil)
		b, _ := v.Bytes()
		nd.Assume(len(b) == total)
		ls = v
	} else {
		// a LeaseSet2 built by the constructor (independent of the parser) with an offline block whose transient
		// key type has a 64-, 96- or 40-byte signature; unsigned (nil key: placeholder signature of that size)
		_, dpub := nd.Ed25519Key()
		dest, ok := destWithSigType(7, dpub)
		nd.Assume(ok)
		tt := []int{7, 2, 0}[nd.IntRange(0, 2)]
		tp, _ := sigLens(tt)
		o, oerr := offline_signature.NewOfflineSignature(nd.Uint32(), uint16(tt), nd.Bytes(tp), nd.Bytes(64), 7)
		nd.Assume(oerr == nil)
		var l lease.Lease2
		copy(l[:], nd.Bytes(40))
		// one encryption key, or the maximum of 16
		nk = []int{1, 16}[nd.IntRange(0, 1)]
		var keys []lease_set2.EncryptionKey
		for k := 0; k < nk; k++ {
			keys = append(keys, lease_set2.EncryptionKey{KeyType: 4, KeyLen: 32, KeyData: nd.Bytes(32)})
		}
		v, cerr := lease_set2.NewLeaseSet2(dest, nd.Uint32(), nd.Uint16(), 1, &o, data.Mapping{}, keys, []lease.Lease2{l}, nil)
		nd.Assume(cerr == nil)
		ls = v
	}
	want, werr := ls.Bytes()
	nd.Assume(werr == nil)
	priv, pub := nd.X25519Key()
	var cookie [32]byte
	copy(cookie[:], nd.Bytes(32))
	ct, eerr := encrypted_leaseset.EncryptInnerLeaseSet2(&ls, cookie, pub)
	nd.Assert(eerr == nil, "encrypt/succeeds")
	if eerr != nil {
		return
	}
	nd.Assert(len(ct) == 32+12+len(want)+16, "encrypt/layout-ephemeral-nonce-ciphertext-tag")
	sk, _ := nd.Ed25519Key()
	_, bpub := nd.Ed25519Key()
	mk := func(data []byte) *encrypted_leaseset.EncryptedLeaseSet {
		e, cerr := encrypted_leaseset.NewEncryptedLeaseSet(11, bpub, 1, 600, 0, nil, data, ed25519.PrivateKey(sk))
		nd.Assume(cerr == nil && e != nil)
		return e
	}
	switch nd.IntRange(0, 2) {
	case 0:
		back, derr := mk(ct).DecryptInnerData(cookie[:], priv)
		nd.Assert(derr == nil && back != nil, "decrypt/matching-key-succeeds")
		if derr == nil && back != nil {
			nd.Cover("decrypted")
			got, gerr := back.Bytes()
			nd.Assert(gerr == nil && bytes.Equal(got, want), "decrypt/returns-identical-leaseset2")
		}
	case 1:
		// a different private key = a different scalar: X25519 clamps bits 0..2 of the first and bits 6..7 of the
		// last byte, keys that differ only there are the same key
		other, _ := nd.X25519Key()
		nd.Assume(!bytes.Equal(clampX25519(other), clampX25519(priv)))
		back, derr := mk(ct).DecryptInnerData(cookie[:], other)
		nd.Cover("wrong-key")
		nd.Assert(derr != nil, "decrypt/other-private-key-fails")
		nd.Assert(back == nil, "decrypt/other-private-key-gives-no-value")
	case 2:
		// region boundaries (ephemeral key | nonce | ciphertext | tag) plus every 8th byte (T: every byte) of the whole blob
		pos := []int{0, 31, 32, 43, 44, 44 + len(want)/2, len(ct) - 17, len(ct) - 16, len(ct) - 1}
		step := 8
		if nk > 1 {
			step = 64
		}
		if nd.Thorough() {
			step = 1
		}
		for p := 1; p < len(ct)-1; p += step {
			pos = append(pos, p)
		}
		i := pos[nd.IntRange(0, len(pos)-1)]
		mod := append([]byte{}, ct...)
		mask := nd.Byte() // the modification is an XOR mask: the ciphertext itself is random natively
		nd.Assume(mask != 0)
		mod[i] ^= mask
		back, derr := mk(mod).DecryptInnerData(cookie[:], priv)
		nd.Cover("tampered")
		nd.Assert(derr != nil, "decrypt/modified-ciphertext-byte-fails")
		nd.Assert(back == nil, "decrypt/modified-ciphertext-gives-no-value")
	}
}

func clampX25519(k []byte) []byte {
	c := append([]byte{}, k...)
	c[0] &= 248
	c[31] = c[31]&127 | 64
	return c
}

func destWithSigType(sigT int, pub []byte) (destination.Destination, bool) {
	return destWithSigTypeExtra(sigT, pub, 0)
}

// destWithSigTypeExtra: as destWithSigType, with `extra` arbitrary payload bytes behind the four type bytes of the KEY certificate.
func destWithSigTypeExtra(sigT int, pub []byte, extra int) (destination.Destination, bool) {
	b := nd.Bytes(391 + extra)
	pin(b, 384, 5, 0, byte(4+extra), byte(sigT>>8), byte(sigT), 0, 4)
	copy(b[352:384], pub)
	d, _, err := destination.ReadDestination(b)
	return d, err == nil
}

// H_C16_Blinding: CreateBlindedDestination is a deterministic function of destination, secret and UTC calendar day (instants in arbitrary fixed zones); keeps encryption key, padding and certificate; changes the signing key; passes VerifyBlindedSignature with the derived factor and fails it with any other.
//
//verif:props C16
//verif:witness same-day different-day
func H_C16_Blinding() {
	_, pub := nd.Ed25519Key()
	sigT := []int{7, 11}[nd.IntRange(0, 1)]
	// KEY certificate with the plain 4-byte payload or with 3 (T: also 1, 40) extra payload bytes
	extras := []int{0, 3}
	if nd.Thorough() {
		extras = []int{0, 3, 1, 40}
	}
	dest, ok := destWithSigTypeExtra(sigT, pub, extras[nd.IntRange(0, len(extras)-1)])
	nd.Assume(ok)
	orig, _ := dest.Bytes()
	secret := nd.Bytes([]int{32, 40}[nd.IntRange(0, 1)])
	s1, s2 := nd.Int64(), nd.Int64()
	nd.Assume(s1 >= 200000 && s1 < 4000000000 && s2 >= 200000 && s2 < 4000000000)
	o1, o2 := nd.Int(), nd.Int()
	nd.Assume(o1 >= -12*3600 && o1 <= 14*3600 && o2 >= -12*3600 && o2 <= 14*3600)
	t1 := time.Unix(s1, 0).In(time.FixedZone("a", o1))
	t2 := time.Unix(s2, 0).In(time.FixedZone("b", o2))
	b1, e1 := encrypted_leaseset.CreateBlindedDestination(dest, secret, t1)
	b2, e2 := encrypted_leaseset.CreateBlindedDestination(dest, secret, t2)
	nd.Assert(e1 == nil && e2 == nil, "blind/succeeds")
	if e1 != nil || e2 != nil {
		return
	}
	x1, _ := b1.Bytes()
	x2, _ := b2.Bytes()
	nd.Assert(len(x1) == len(orig), "blind/same-length")
	if len(x1) != len(orig) || len(x2) != len(orig) {
		return
	}
	sameDay := s1/86400 == s2/86400
	if sameDay {
		nd.Cover("same-day")
		nd.Assert(bytes.Equal(x1, x2), "blind/same-utc-day-same-result")
	} else {
		nd.Cover("different-day")
		nd.Assert(!bytes.Equal(x1[352:384], x2[352:384]), "blind/different-utc-day-different-key")
	}
	nd.Assert(bytes.Equal(x1[:352], orig[:352]), "blind/keeps-encryption-key-and-padding")
	nd.Assert(bytes.Equal(x1[384:], orig[384:]), "blind/keeps-certificate")
	nd.Assert(!bytes.Equal(x1[352:384], orig[352:384]), "blind/carries-a-different-signing-key")
	alpha, aerr := kdf.DeriveBlindingFactor(secret, t1.UTC().Format("2006-01-02"))
	nd.Assume(aerr == nil)
	if sigT == 7 {
		nd.Assert(encrypted_leaseset.VerifyBlindedSignature(b1, dest, alpha), "blind/own-check-passes-with-derived-factor")
	} else {
		nd.Assert(encrypted_leaseset.VerifyBlindedSignature(b1, dest, alpha), "blind/own-check-passes-with-derived-factor-reddsa")
	}
	var otherAlpha [32]byte
	copy(otherAlpha[:], nd.Bytes(32))
	nd.Assume(otherAlpha != alpha)
	nd.Assert(!encrypted_leaseset.VerifyBlindedSignature(b1, dest, otherAlpha), "blind/own-check-fails-with-any-other-factor")
}
