package c

import (
	"verifh/nd"

	"github.com/go-i2p/common/encrypted_leaseset"
	"github.com/go-i2p/common/lease_set"
	"github.com/go-i2p/common/lease_set2"
	"github.com/go-i2p/common/meta_leaseset"
	"github.com/go-i2p/common/offline_signature"
	"github.com/go-i2p/common/router_info"
)

// algOf maps a signing type code to the primitive the specification prescribes for it.
func algOf(t int) string {
	switch t {
	case 0:
		return "dsa"
	case 1:
		return "ecdsa-p256"
	case 2:
		return "ecdsa-p384"
	case 3:
		return "ecdsa-p521"
	case 7, 11:
		return "ed25519"
	case 8:
		return "ed25519ph"
	}
	return "unsupported"
}

func cat(prefix []byte, b []byte) []byte {
	out := make([]byte, 0, len(prefix)+len(b))
	out = append(out, prefix...)
	return append(out, b...)
}

// authentic asserts the C05 facts for a structure parsed from in[:c] whose Verify succeeded:
// destKey/destT: the identity's signing key bytes (taken from the input) and type; off >= 0: offset of an
// offline block whose transient type is transT; prefix: the store-type prefix.
func authentic(tag string, in []byte, c int, prefix []byte, destKey []byte, destT int, off int, transT int) {
	if off < 0 {
		_, sl := sigLens(destT)
		msg := cat(prefix, in[:c-sl])
		nd.Assert(nd.SigValid(algOf(destT), destKey, msg, in[c-sl:c]), tag+"/signature-valid-under-identity-key-over-input-bytes")
		return
	}
	tp, tsl := sigLens(transT)
	_, dsl := sigLens(destT)
	tkey := in[off+6 : off+6+tp]
	msg := cat(prefix, in[:c-tsl])
	nd.Assert(nd.SigValid(algOf(transT), tkey, msg, in[c-tsl:c]), tag+"/signature-valid-under-transient-key-over-input-bytes")
	nd.Assert(nd.SigValid(algOf(destT), destKey, in[off:off+6+tp], in[off+6+tp:off+6+tp+dsl]), tag+"/transient-key-authorised-by-identity-key")
}

func destKeyOf(in []byte, sigT int) []byte {
	sp, _ := sigLens(destSigType(sigT))
	return in[384-sp : 384]
}

func destLen(sigT, excess int) int {
	if sigT < 0 {
		return 387
	}
	return 391 + excess
}

// H_C05_LeaseSet2: Verify()==nil implies authenticity over the input bytes (and authorisation of a transient key).
//
//verif:props C05
//verif:witness verified
func H_C05_LeaseSet2() {
	shapes := ls2Shapes()
	i := nd.IntRange(0, len(shapes)-1)
	s := shapes[i]
	in, _ := s.build()
	ls, rem, err := lease_set2.ReadLeaseSet2(in)
	if err != nil {
		return
	}
	if ls.Verify() != nil {
		return
	}
	nd.Cover("verified")
	off := -1
	if s.offline >= 0 {
		off = destLen(s.sigT, s.excess) + 8
	}
	authentic("ls2", in, len(in)-len(rem), []byte{3}, destKeyOf(in, s.sigT), destSigType(s.sigT), off, s.offline)
}

// H_C05_MetaLeaseSet: same for MetaLeaseSet (store type 7).
//
//verif:props C05
//verif:witness verified
func H_C05_MetaLeaseSet() {
	shapes := metaShapes()
	s := shapes[nd.IntRange(0, len(shapes)-1)]
	in, _ := s.build()
	m, rem, err := meta_leaseset.ReadMetaLeaseSet(in)
	if err != nil {
		return
	}
	if m.Verify() != nil {
		return
	}
	nd.Cover("verified")
	off := -1
	if s.offline >= 0 {
		off = destLen(s.sigT, s.excess) + 8
	}
	authentic("meta", in, len(in)-len(rem), []byte{7}, destKeyOf(in, s.sigT), destSigType(s.sigT), off, s.offline)
}

// H_C05_EncryptedLeaseSet: same for EncryptedLeaseSet (store type 5; the identity key is the blinded key).
//
//verif:props C05
//verif:witness verified
func H_C05_EncryptedLeaseSet() {
	shapes := encShapes()
	s := shapes[nd.IntRange(0, len(shapes)-1)]
	in, _ := s.build()
	e, rem, err := encrypted_leaseset.ReadEncryptedLeaseSet(in)
	if err != nil {
		return
	}
	if e.Verify() != nil {
		return
	}
	nd.Cover("verified")
	kp, _ := sigLens(s.sigT)
	off := -1
	if s.offline >= 0 {
		off = 2 + kp + 8
	}
	authentic("enc", in, len(in)-len(rem), []byte{5}, in[2:2+kp], s.sigT, off, s.offline)
}

// H_C05_LeaseSet: legacy LeaseSet (no prefix).
//
//verif:props C05
//verif:witness verified
func H_C05_LeaseSet() {
	shapes := lsShapes()
	s := shapes[nd.IntRange(0, len(shapes)-1)]
	in, total := s.build()
	ls, err := lease_set.ReadLeaseSet(in)
	if err != nil {
		return
	}
	if ls.Verify() != nil {
		return
	}
	nd.Cover("verified")
	authentic("ls", in, total, nil, destKeyOf(in, s.sigT), destSigType(s.sigT), -1, 0)
}

// H_C05_RouterInfo: RouterInfo.VerifySignature (no prefix).
//
//verif:props C05
//verif:witness verified
func H_C05_RouterInfo() {
	shapes := riShapes()
	s := shapes[nd.IntRange(0, len(shapes)-1)]
	in, _ := s.build()
	ri, rem, err := router_info.ReadRouterInfo(in)
	if err != nil {
		return
	}
	ok, verr := ri.VerifySignature()
	if verr != nil || !ok {
		return
	}
	nd.Cover("verified")
	authentic("ri", in, len(in)-len(rem), nil, destKeyOf(in, s.sigT), destSigType(s.sigT), -1, 0)
}

// H_C05_OfflineSignature: VerifySignature(destKey)==true implies validity of the offline block under that key.
//
//verif:props C05
//verif:witness verified
func H_C05_OfflineSignature() {
	tts := []int{7, 1, 0, 11, 8}
	dts := []int{7, 11, 8, 1, 0}
	tt := tts[nd.IntRange(0, len(tts)-1)]
	dt := dts[nd.IntRange(0, len(dts)-1)]
	tp, _ := sigLens(tt)
	dp, ds := sigLens(dt)
	in := nd.Bytes(6 + tp + ds)
	pin(in, 4, byte(tt>>8), byte(tt))
	key := nd.Bytes(dp)
	o, _, err := offline_signature.ReadOfflineSignature(in, uint16(dt))
	if err != nil {
		return
	}
	ok, verr := o.VerifySignature(key)
	if verr != nil || !ok {
		return
	}
	nd.Cover("verified")
	nd.Assert(nd.SigValid(algOf(dt), key, in[:6+tp], in[6+tp:]), "offline/valid-under-given-key-over-input-bytes")
}

// H_C05_Sequences: verification has no memory: after one structure verified, a SECOND structure with the same
// identity and the same signature bytes but different signed content (published date, options) is judged on its own
// bytes -- success still implies authenticity over the second input.  RouterInfo and LeaseSet2.
//
//verif:props C05
//verif:witness second-verified
func H_C05_Sequences() {
	if nd.Bool() {
		s := riShape{7, 4, 0, nil, 0, 0}
		in1, total := s.build()
		ri1, _, err1 := router_info.ReadRouterInfo(in1)
		if err1 != nil {
			return
		}
		ok1, verr1 := ri1.VerifySignature()
		if verr1 != nil || !ok1 {
			return
		}
		// same identity, same signature, another published date
		in2 := append([]byte{}, in1...)
		copy(in2[391:399], nd.Bytes(8))
		ri2, rem2, err2 := router_info.ReadRouterInfo(in2)
		if err2 != nil {
			return
		}
		ok2, verr2 := ri2.VerifySignature()
		if verr2 != nil || !ok2 {
			return
		}
		nd.Cover("second-verified")
		_ = total
		authentic("seq/ri", in2, len(in2)-len(rem2), nil, destKeyOf(in2, 7), 7, -1, 0)
		return
	}
	s := ls2Shape{7, 4, 0, -1, 0, []int{32}, 1, 0}
	in1, _ := s.build()
	l1, _, err1 := lease_set2.ReadLeaseSet2(in1)
	if err1 != nil {
		return
	}
	if l1.Verify() != nil {
		return
	}
	in2 := append([]byte{}, in1...)
	copy(in2[391:395], nd.Bytes(4)) // another published time
	l2, rem2, err2 := lease_set2.ReadLeaseSet2(in2)
	if err2 != nil {
		return
	}
	if l2.Verify() != nil {
		return
	}
	nd.Cover("second-verified")
	authentic("seq/ls2", in2, len(in2)-len(rem2), []byte{3}, destKeyOf(in2, 7), 7, -1, 0)
}
