package c

import (
	"bytes"

	"verifh/nd"

	"github.com/go-i2p/common/data"
)

// H_C11_ReadMapping: free-form input to ReadMapping (N in 0..Nmax, size field and all string lengths symbolic): no errors => Data() == consumed bytes, remainder is the suffix, extent is 2+size.
//
//verif:props C11 C01 C03 C04
//verif:witness accepted nonempty
func H_C11_ReadMapping() {
	max := 12
	if nd.Thorough() {
		max = 16
	}
	n := nd.IntRange(0, max)
	in := nd.Bytes(n)
	m, rem, errs := data.ReadMapping(in)
	if len(errs) != 0 {
		return
	}
	nd.Cover("accepted")
	out := m.Data()
	k := checkRT("mapping", in, rem, out)
	nd.Assert(k == 2+int(be(in[:2])), "mapping/extent")
	if len(m.Values()) > 0 {
		nd.Cover("nonempty")
	}
	// NewMapping agrees (C19)
	p, rem2, errs2 := data.NewMapping(in)
	nd.Assert(len(errs2) == 0 && p != nil, "newmapping/accepts-too")
	if p != nil {
		nd.Assert(bytes.Equal(p.Data(), out) && bytes.Equal(rem2, rem), "newmapping/agrees")
	}
}

// refEncodeMapping is the independent encoder: size(2) then klen k '=' vlen v ';' per pair, in the order given.
func refEncodeMapping(ks, vs []string) []byte {
	var body []byte
	for i := range ks {
		body = append(body, byte(len(ks[i])))
		body = append(body, ks[i]...)
		body = append(body, '=')
		body = append(body, byte(len(vs[i])))
		body = append(body, vs[i]...)
		body = append(body, ';')
	}
	out := []byte{byte(len(body) >> 8), byte(len(body))}
	return append(out, body...)
}

// sortPairs sorts parallel key/value slices by key (insertion sort, independent of /repo).
func sortPairs(ks, vs []string) {
	for i := 1; i < len(ks); i++ {
		for j := i; j > 0 && ks[j] < ks[j-1]; j-- {
			ks[j], ks[j-1] = ks[j-1], ks[j]
			vs[j], vs[j-1] = vs[j-1], vs[j]
		}
	}
}

func goMapRoundTrip(tag string, ks, vs []string) {
	// build the Go map; equal keys merge (last write wins), mirrored in the reference lists
	m := map[string]string{}
	var rk, rv []string
	for i := range ks {
		m[ks[i]] = vs[i]
		dup := false
		for j := range rk {
			if rk[j] == ks[i] {
				rv[j] = vs[i]
				dup = true
			}
		}
		if !dup {
			rk = append(rk, ks[i])
			rv = append(rv, vs[i])
		}
	}
	mp, err := data.GoMapToMapping(m)
	nd.Assert(err == nil && mp != nil, tag+"/gomap-accepted")
	if err != nil || mp == nil {
		return
	}
	nd.Cover("built")
	out := mp.Data()
	sortPairs(rk, rv)
	ref := refEncodeMapping(rk, rv)
	nd.Assert(bytes.Equal(out, ref), tag+"/canonical-sorted-encoding")
	nd.Assert(len(out) >= 2 && int(be(out[:2])) == len(out)-2, tag+"/size-field")
	back, rem, errs := data.ReadMapping(out)
	nd.Assert(len(errs) == 0, tag+"/reparse-no-errors")
	nd.Assert(len(rem) == 0, tag+"/reparse-no-remainder")
	if len(errs) != 0 {
		return
	}
	g, gerr := back.ToGoMap()
	nd.Assert(gerr == nil, tag+"/togomap-ok")
	nd.Assert(len(g) == len(rk), tag+"/same-count")
	for i := range rk {
		v, ok := g[rk[i]]
		nd.Assert(ok && v == rv[i], tag+"/same-entries")
	}
	nd.Assert(bytes.Equal(back.Data(), out), tag+"/reserialise")
}

// H_C11_GoMap: Go map (0..2 entries, T: 3; key lengths 1..2, value lengths 0..2, contents symbolic incl. '=' ';', equal keys allowed) -> GoMapToMapping -> Data -> ReadMapping -> ToGoMap is the identity; encoding is sorted and independent of iteration order (all permutations explored).
//
//verif:props C11 C02 C06
//verif:witness built
func H_C11_GoMap() {
	maxc := 2
	if nd.Thorough() {
		maxc = 3
	}
	cnt := nd.IntRange(0, maxc)
	var ks, vs []string
	for i := 0; i < cnt; i++ {
		ks = append(ks, nd.String(nd.IntRange(1, 2)))
		vs = append(vs, nd.String(nd.IntRange(0, 2)))
	}
	goMapRoundTrip("gomap", ks, vs)
}

// H_C11_GoMapLong: one or two entries with 255-byte keys/values (the string limit).
//
//verif:props C11 C02
//verif:witness built
func H_C11_GoMapLong() {
	lens := []int{1, 255}
	cnt := nd.IntRange(1, 2)
	var ks, vs []string
	for i := 0; i < cnt; i++ {
		ks = append(ks, nd.String(lens[nd.IntRange(0, 1)]))
		vs = append(vs, nd.String(lens[nd.IntRange(0, 1)]))
	}
	goMapRoundTrip("gomaplong", ks, vs)
}

// H_C11_GoMapEmptyKey: the empty key (admitted by GoMapToMapping) is its own shape so that it can be triaged separately.
//
//verif:props C11
//verif:witness built
func H_C11_GoMapEmptyKey() {
	ks := []string{"", nd.String(1)}
	vs := []string{nd.String(nd.IntRange(0, 1)), nd.String(1)}
	goMapRoundTrip("gomapemptykey", ks, vs)
}

// H_C11_Limits: strings over 255 bytes are rejected, not truncated.
//
//verif:props C11
//verif:witness rejected
func H_C11_Limits() {
	big := nd.String(256)
	small := nd.String(1)
	var m map[string]string
	if nd.Bool() {
		m = map[string]string{big: small}
	} else {
		m = map[string]string{small: big}
	}
	mp, err := data.GoMapToMapping(m)
	nd.Assert(err != nil, "limits/256-rejected")
	nd.Assert(mp == nil, "limits/256-no-value")
	nd.Cover("rejected")
	mv := data.MappingValues{}
	_, aerr := mv.Add(big, small)
	nd.Assert(aerr != nil, "limits/add-256-key-rejected")
	_, aerr2 := mv.Add(small, big)
	nd.Assert(aerr2 != nil, "limits/add-256-value-rejected")
	_, aerr3 := mv.Add("", small)
	nd.Assert(aerr3 != nil, "limits/add-empty-key-rejected")
}

// H_C11_SizeLimit: the 65,535-byte total: 128 pairs with concrete distinct keys and lengths chosen so that the payload is 65,533..65,537 bytes (last value symbolic): accepted and round-tripping up to 65,535, rejected (not truncated, not wrapped) above.
//
//verif:props C11
//verif:witness accepted rejected
//verif:steps 600000000
//verif:loopcap 200000
func H_C11_SizeLimit() {
	total := 65533 + nd.IntRange(0, 4)
	m := map[string]string{}
	sum := 0
	for i := 0; i < 127; i++ {
		k := make([]byte, 255)
		for j := range k {
			k[j] = 'a'
		}
		k[0], k[1] = byte('A'+i/26), byte('a'+i%26)
		v := make([]byte, 255)
		m[string(k)] = string(v)
		sum += 255 + 255 + 4
	}
	rest := total - sum - 4 // key+value bytes of the last pair
	lastK := "zz"
	lastV := nd.String(rest - len(lastK))
	m[lastK] = lastV
	mp, err := data.GoMapToMapping(m)
	if total > 65535 {
		nd.Cover("rejected")
		nd.Assert(err != nil && mp == nil, "sizelimit/over-65535-rejected")
		return
	}
	nd.Assert(err == nil && mp != nil, "sizelimit/up-to-65535-accepted")
	if err != nil || mp == nil {
		return
	}
	nd.Cover("accepted")
	out := mp.Data()
	nd.Assert(len(out) == total+2 && int(be(out[:2])) == total, "sizelimit/size-field-equals-bytes-that-follow")
	back, rem, errs := data.ReadMapping(out)
	nd.Assert(len(errs) == 0 && len(rem) == 0, "sizelimit/reparses")
	if len(errs) == 0 {
		g, gerr := back.ToGoMap()
		nd.Assert(gerr == nil && len(g) == 128 && g[lastK] == lastV, "sizelimit/same-map")
	}
}

// H_C11_Values: ValuesToMapping on unsorted MappingValues (2 pairs, symbolic keys/values) gives the same canonical bytes as GoMapToMapping of the same pairs, and Values()/Get agree with the map.
//
//verif:props C11 C19
//verif:witness built
func H_C11_Values() {
	k1, k2 := nd.String(nd.IntRange(1, 2)), nd.String(nd.IntRange(1, 2))
	v1, v2 := nd.String(nd.IntRange(0, 1)), nd.String(nd.IntRange(0, 1))
	nd.Assume(k1 != k2)
	mv := data.MappingValues{}
	var err error
	mv, err = mv.Add(k1, v1)
	nd.Assume(err == nil)
	mv, err = mv.Add(k2, v2)
	nd.Assume(err == nil)
	a, aerr := data.ValuesToMapping(mv)
	b, berr := data.GoMapToMapping(map[string]string{k1: v1, k2: v2})
	nd.Assert(aerr == nil && berr == nil && a != nil && b != nil, "values/both-constructed")
	if aerr != nil || berr != nil || a == nil || b == nil {
		return
	}
	nd.Cover("built")
	nd.Assert(bytes.Equal(a.Data(), b.Data()), "values/same-canonical-bytes-as-gomap")
	ks, vs := []string{k1, k2}, []string{v1, v2}
	sortPairs(ks, vs)
	nd.Assert(bytes.Equal(a.Data(), refEncodeMapping(ks, vs)), "values/canonical-sorted-encoding")
	q, _ := data.ToI2PString(k2)
	got := a.Values().Get(q)
	d, derr := got.Data()
	nd.Assert(got != nil && derr == nil && d == v2, "values/get-returns-value-of-key")
}
