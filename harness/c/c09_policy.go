package c

import (
	"verifh/nd"

	"github.com/go-i2p/common/destination"
	"github.com/go-i2p/common/keys_and_cert"
	"github.com/go-i2p/common/lease_set"
	"github.com/go-i2p/common/lease_set2"
	"github.com/go-i2p/common/meta_leaseset"
	"github.com/go-i2p/common/router_identity"
	"github.com/go-i2p/common/router_info"
)

// prohibitedDest / prohibitedIdent are the specification's sets (written here, not taken from /repo).
func prohibitedDest(sig, cry int) bool {
	return cry == 5 || cry == 6 || cry == 7 || sig == 4 || sig == 5 || sig == 6 || sig == 8
}

func prohibitedIdent(sig, cry int) bool { return prohibitedDest(sig, cry) || sig == 11 }

func declaredTypes(k *keys_and_cert.KeysAndCert) (int, int) {
	return k.KeyCertificate.SigningPublicKeyType(), k.KeyCertificate.PublicKeyType()
}

// typesOf reads the declared types from the input bytes of a keys-and-cert block (NULL certificate = 0,0).
func typesOf(in []byte) (int, int) {
	if in[384] == 5 {
		return int(be(in[387:389])), int(be(in[389:391]))
	}
	return 0, 0
}

// supportedPermitted: pairs that are permitted and that the library supports inline (per the statement's converse).
func supportedPermitted(sig, cry int, dest bool) bool {
	okS := sig == 0 || sig == 1 || sig == 2 || sig == 7 || (dest && sig == 11)
	okC := cry == 0 || cry == 4
	return okS && okC
}

// H_C09_Direct: all four key-type bytes free over the 16-bit code space; every direct path to a Destination or RouterIdentity.
//
//verif:props C09
//verif:witness dest-accepted ident-accepted dest-rejected
func H_C09_Direct() {
	in := kacInput()
	sig, cry := typesOf(in)
	wellFormedKey := in[384] == 5 && in[386] >= 4
	wellFormedNull := in[384] == 0 && in[386] == 0

	d, _, err := destination.ReadDestination(in)
	if err == nil {
		nd.Cover("dest-accepted")
		s, c := declaredTypes(d.KeysAndCert)
		nd.Assert(!prohibitedDest(s, c), "ReadDestination/no-prohibited-type")
		nd.Assert(s == sig && c == cry, "ReadDestination/declares-input-types")
	} else {
		nd.Cover("dest-rejected")
		if wellFormedKey || wellFormedNull {
			nd.Assert(!supportedPermitted(sig, cry, true), "ReadDestination/permitted-pair-accepted")
		}
	}
	dp, _, perr := destination.NewDestinationFromBytes(in)
	nd.Assert((perr == nil) == (err == nil), "NewDestinationFromBytes/agrees")
	if perr == nil {
		s, c := declaredTypes(dp.KeysAndCert)
		nd.Assert(!prohibitedDest(s, c), "NewDestinationFromBytes/no-prohibited-type")
	}

	r, _, rerr := router_identity.ReadRouterIdentity(in)
	if rerr == nil {
		nd.Cover("ident-accepted")
		s, c := declaredTypes(r.KeysAndCert)
		nd.Assert(!prohibitedIdent(s, c), "ReadRouterIdentity/no-prohibited-type")
		ad := r.AsDestination()
		if ad.KeysAndCert != nil {
			s2, c2 := declaredTypes(ad.KeysAndCert)
			nd.Assert(!prohibitedDest(s2, c2), "AsDestination/no-prohibited-type")
		}
	} else if wellFormedKey || wellFormedNull {
		nd.Assert(!supportedPermitted(sig, cry, false), "ReadRouterIdentity/permitted-pair-accepted")
	}
	rp, _, rperr := router_identity.NewRouterIdentityFromBytes(in)
	nd.Assert((rperr == nil) == (rerr == nil), "NewRouterIdentityFromBytes/agrees")
	if rperr == nil {
		s, c := declaredTypes(rp.KeysAndCert)
		nd.Assert(!prohibitedIdent(s, c), "NewRouterIdentityFromBytes/no-prohibited-type")
	}

	// constructor paths from a parsed keys-and-cert (the generic reader applies no policy)
	k, _, kerr := keys_and_cert.ReadKeysAndCert(in)
	if kerr != nil {
		return
	}
	ks, kc := declaredTypes(k)
	nd0, nerr := destination.NewDestination(k)
	cAssert(nerr != nil || !prohibitedDest(ks, kc), "NewDestination/no-prohibited-type")
	_ = nd0
	ni, nierr := router_identity.NewRouterIdentityFromKeysAndCert(k)
	cAssert(nierr != nil || !prohibitedIdent(ks, kc), "NewRouterIdentityFromKeysAndCert/no-prohibited-type")
	_ = ni
	ri2, ri2err := router_identity.NewRouterIdentity(k.ReceivingPublic, k.SigningPublic, k.Certificate(), k.Padding)
	cAssert(ri2err != nil || !prohibitedIdent(ks, kc), "NewRouterIdentity/no-prohibited-type")
	_ = ri2
	if supportedPermitted(ks, kc, true) {
		cAssert(nerr == nil, "NewDestination/permitted-pair-accepted")
	}
	if supportedPermitted(ks, kc, false) {
		cAssert(nierr == nil, "NewRouterIdentityFromKeysAndCert/permitted-pair-accepted")
		if in[384] == 5 {
			cAssert(ri2err == nil, "NewRouterIdentity/permitted-pair-accepted")
		}
	}
}

// badPairs: prohibited pairs whose key sizes equal those of a permitted pair, so that policy is the only reason to reject.
var badPairs = [][2]int{{8, 4}, {7, 5}, {7, 6}, {7, 7}, {8, 0}, {11, 4}}

// H_C09_Embedded: prohibited types inside RouterInfo, LeaseSet, LeaseSet2 and MetaLeaseSet: the parser must not hand out such a Destination / RouterIdentity.
//
//verif:props C09
//verif:witness tried
func H_C09_Embedded() {
	p := badPairs[nd.IntRange(0, len(badPairs)-1)]
	sig, cry := p[0], p[1]
	nd.Cover("tried")
	switch nd.IntRange(0, 4) {
	case 0:
		in, _ := riShape{sig, cry, 0, nil, 0, 0}.build()
		ri, _, err := router_info.ReadRouterInfo(in)
		if err == nil && ri.RouterIdentity() != nil {
			s, c := declaredTypes(ri.RouterIdentity().KeysAndCert)
			cAssert(!prohibitedIdent(s, c), "ReadRouterInfo/identity-no-prohibited-type")
		}
	case 1:
		if cry != 0 && cry != 4 && sig == 11 {
			return
		}
		in, _ := lsShape{sig, cry, 0, 1, 0}.build()
		ls, err := lease_set.ReadLeaseSet(in)
		if err == nil {
			d := ls.Destination()
			if d.KeysAndCert != nil {
				s, c := declaredTypes(d.KeysAndCert)
				cAssert(!prohibitedDest(s, c), "ReadLeaseSet/destination-no-prohibited-type")
			}
		}
	case 2:
		in, _ := lsShape{sig, cry, 0, 1, 0}.build()
		d, _, err := lease_set.ReadDestinationFromLeaseSet(in)
		if err == nil && d.KeysAndCert != nil {
			s, c := declaredTypes(d.KeysAndCert)
			cAssert(!prohibitedDest(s, c), "ReadDestinationFromLeaseSet/no-prohibited-type")
		}
	case 3:
		off := []int{-1, 7}[nd.IntRange(0, 1)] // with and without an offline block
		in, _ := ls2Shape{sig, cry, 0, off, 0, []int{32}, 1, 0}.build()
		ls, _, err := lease_set2.ReadLeaseSet2(in)
		if err == nil {
			d := ls.Destination()
			if d.KeysAndCert != nil {
				s, c := declaredTypes(d.KeysAndCert)
				cAssert(!prohibitedDest(s, c), "ReadLeaseSet2/destination-no-prohibited-type")
			}
		}
	case 4:
		off := []int{-1, 7}[nd.IntRange(0, 1)]
		in, _ := metaShape{sig, cry, 0, off, 0, []int{0}, 0}.build()
		m, _, err := meta_leaseset.ReadMetaLeaseSet(in)
		if err == nil {
			d := m.Destination()
			if d.KeysAndCert != nil {
				s, c := declaredTypes(d.KeysAndCert)
				cAssert(!prohibitedDest(s, c), "ReadMetaLeaseSet/destination-no-prohibited-type")
			}
		}
	}
}

// H_C09_EmbeddedPermitted: the restriction does not reject permitted, supported combinations inside the composite parsers: well-formed RouterInfo, LeaseSet, LeaseSet2 and MetaLeaseSet encodings with a permitted pair are accepted and hand out that identity.
//
//verif:props C09
//verif:witness accepted
func H_C09_EmbeddedPermitted() {
	pairs := [][2]int{{7, 4}, {7, 0}, {11, 4}, {1, 0}, {0, 0}, {2, 0}, {-1, 0}}
	p := pairs[nd.IntRange(0, len(pairs)-1)]
	sig, cry := p[0], p[1]
	want := destSigType(sig)
	switch nd.IntRange(0, 3) {
	case 0:
		if sig == 11 {
			return // RedDSA is not permitted for router identities
		}
		in, _ := riShape{sig, cry, 0, nil, 0, 0}.build()
		ri, _, err := router_info.ReadRouterInfo(in)
		cAssert(err == nil, "ReadRouterInfo/permitted-pair-accepted")
		if err == nil {
			nd.Cover("accepted")
			s, _ := declaredTypes(ri.RouterIdentity().KeysAndCert)
			cAssert(s == want, "ReadRouterInfo/identity-declares-input-type")
		}
	case 1:
		if cry != 0 {
			return // the legacy LeaseSet carries an ElGamal encryption key; keep the destination ElGamal too
		}
		in, _ := lsShape{sig, cry, 0, 1, 0}.build()
		dl := destLen(sig, 0)
		nd.Assume(in[dl] == 0 && in[dl+255] >= 2) // ElGamal key in the certainly-valid region
		if sig == 0 || sig < 0 {
			sp := dl + 256
			nd.Assume(in[sp] == 0 && in[sp+127] >= 2) // DSA revocation key likewise
		}
		ls, err := lease_set.ReadLeaseSet(in)
		cAssert(err == nil, "ReadLeaseSet/permitted-pair-accepted")
		if err == nil {
			nd.Cover("accepted")
			d := ls.Destination()
			s, _ := declaredTypes(d.KeysAndCert)
			cAssert(s == want, "ReadLeaseSet/destination-declares-input-type")
		}
	case 2:
		off := []int{-1, 7}[nd.IntRange(0, 1)]
		nl := 1
		if sig < 0 || sig == 0 {
			nl = 2 // reach the 499-byte minimum with a 40-byte DSA signature
		}
		in, _ := ls2Shape{sig, cry, 0, off, 0, []int{32}, nl, 0}.build()
		ls, _, err := lease_set2.ReadLeaseSet2(in)
		cAssert(err == nil, "ReadLeaseSet2/permitted-pair-accepted")
		if err == nil {
			nd.Cover("accepted")
			d := ls.Destination()
			s, _ := declaredTypes(d.KeysAndCert)
			cAssert(s == want, "ReadLeaseSet2/destination-declares-input-type")
		}
	case 3:
		in, _ := metaShape{sig, cry, 0, -1, 0, []int{0, 0}, 0}.build()
		e0 := destLen(sig, 0) + 8 + 2 + 1
		nd.Assume(in[e0+32] == 3 && in[e0+40+32] == 5) // entry types are validated (1, 3, 5)
		m, _, err := meta_leaseset.ReadMetaLeaseSet(in)
		cAssert(err == nil, "ReadMetaLeaseSet/permitted-pair-accepted")
		if err == nil {
			nd.Cover("accepted")
			d := m.Destination()
			s, _ := declaredTypes(d.KeysAndCert)
			cAssert(s == want, "ReadMetaLeaseSet/destination-declares-input-type")
		}
	}
}
