package c

import (
	"bytes"
	"net"
	"strconv"

	"verifh/nd"

	"github.com/go-i2p/common/data"
	"github.com/go-i2p/common/router_address"
)

// addrFrom builds the address through the constructor or, additionally, through the wire parser.
func addrFrom(opts map[string]string) *router_address.RouterAddress {
	a, err := router_address.NewRouterAddress(nd.Byte(), nowZero(), "NTCP2", opts)
	nd.Assume(err == nil && a != nil)
	if nd.Bool() {
		b, rem, perr := router_address.ReadRouterAddress(a.Bytes())
		nd.Assert(perr == nil && len(rem) == 0, "ra/constructed-address-reparses")
		if perr != nil {
			nd.Assume(false)
		}
		return &b
	}
	return a
}

// H_C17_Host: host accessor, validity helper and IP version on arbitrary host strings (lengths 0..3, T: 4, and 7 in the thorough tier: every IPv6 short form and every dotted quad of one-digit fields, plus all malformed strings of those lengths), through the real net.ParseIP code.
//
//verif:props C17
//verif:witness valid-host invalid-host
func H_C17_Host() {
	maxn := 3
	if nd.Thorough() {
		maxn = 4
	}
	n := nd.IntRange(0, maxn)
	host := nd.String(n)
	opts := map[string]string{"host": host}
	withCaps := nd.Bool()
	caps := ""
	if withCaps {
		caps = nd.String(nd.IntRange(0, 2))
		opts["caps"] = caps
	}
	a := addrFrom(opts)
	ip := net.ParseIP(host) // oracle: the standard library, not /repo
	valid := ip != nil
	addr, herr := a.Host()
	nd.Assert(nd.Implies(herr == nil, valid), "host/succeeds-only-for-ip-literal")
	nd.Assert(a.HasValidHost() == (herr == nil), "host/HasValidHost-agrees-with-accessor")
	nd.Assert(nd.Implies(a.HasValidHost(), valid), "host/HasValidHost-only-for-ip-literal")
	nd.Assert(!nd.Called("net.ResolveIPAddr:non-literal"), "host/no-name-resolution")
	if valid && herr == nil {
		nd.Cover("valid-host")
		nd.Assert(addr != nil && addr.String() == ip.String(), "host/returns-that-address")
		want := "6"
		if ip.To4() != nil {
			want = "4"
		}
		nd.Assert(a.IPVersion() == want, "host/ipversion-matches-family")
	} else if !valid {
		nd.Cover("invalid-host")
		want := ""
		if withCaps {
			want = "4"
			if len(caps) > 0 && caps[len(caps)-1] == '6' {
				want = "6"
			}
		}
		nd.Assert(a.IPVersion() == want, "host/ipversion-from-caps-otherwise")
	}
}

// H_C17_HostV4: dotted quads: 7-character host strings.
//
//verif:props C17
//verif:witness valid-host
//verif:tier thorough
func H_C17_HostV4() {
	host := nd.String(7)
	a := addrFrom(map[string]string{"host": host})
	ip := net.ParseIP(host)
	_, herr := a.Host()
	nd.Assert(nd.Implies(herr == nil, ip != nil), "hostv4/succeeds-only-for-ip-literal")
	nd.Assert(a.HasValidHost() == (herr == nil), "hostv4/HasValidHost-agrees-with-accessor")
	nd.Assert(!nd.Called("net.ResolveIPAddr:non-literal"), "hostv4/no-name-resolution")
	if ip != nil {
		nd.Cover("valid-host")
		want := "6"
		if ip.To4() != nil {
			want = "4"
		}
		nd.Assert(a.IPVersion() == want, "hostv4/ipversion-matches-family")
	}
}

// H_C17_Port: port accessor and helper on arbitrary port strings of 0..5 bytes (decimal, signed, padded, overflowing, non-numeric), through the real strconv.Atoi code.
//
//verif:props C17
//verif:witness valid-port invalid-port
func H_C17_Port() {
	port := nd.String(nd.IntRange(0, 5))
	a := addrFrom(map[string]string{"port": port})
	v, cerr := strconv.Atoi(port) // oracle: the standard library
	valid := cerr == nil && v >= 1 && v <= 65535
	p, perr := a.Port()
	nd.Assert(nd.Implies(perr == nil, valid), "port/succeeds-only-for-decimal-1-65535")
	nd.Assert(a.HasValidPort() == (perr == nil), "port/HasValidPort-agrees-with-accessor")
	if valid {
		nd.Cover("valid-port")
		if perr == nil {
			nd.Assert(p == strconv.Itoa(v), "port/canonical-form")
		}
	} else {
		nd.Cover("invalid-port")
	}
}

// H_C17_Missing: no host / no port option at all.
//
//verif:props C17
func H_C17_Missing() {
	a := addrFrom(map[string]string{nd.String(nd.IntRange(1, 2)): nd.String(1)})
	nd.Assume(!a.CheckOption("host") && !a.CheckOption("port"))
	_, herr := a.Host()
	_, perr := a.Port()
	nd.Assert(herr != nil && !a.HasValidHost(), "missing/host-fails")
	nd.Assert(perr != nil && !a.HasValidPort(), "missing/port-fails")
}

// H_C17_GetOption: option lookup returns the value stored under exactly the requested key: keys that are prefixes or extensions of the well-known keys do not match.
//
//verif:props C17
//verif:witness found absent
func H_C17_GetOption() {
	keys := []string{"host", "hos", "hostx", "h", "port", "por", "ports", "s", "i", "caps"}
	k1 := keys[nd.IntRange(0, len(keys)-1)]
	k2 := keys[nd.IntRange(0, len(keys)-1)]
	nd.Assume(k1 != k2)
	v1, v2 := nd.String(nd.IntRange(0, 2)), nd.String(nd.IntRange(0, 2))
	a := addrFrom(map[string]string{k1: v1, k2: v2})
	q := keys[nd.IntRange(0, len(keys)-1)]
	qs, _ := data.ToI2PString(q)
	got := a.GetOption(qs)
	var want *string
	if q == k1 {
		want = &v1
	} else if q == k2 {
		want = &v2
	}
	if want == nil {
		nd.Cover("absent")
		nd.Assert(got == nil, "getoption/absent-key-gives-nil")
		nd.Assert(!a.CheckOption(q) && !a.HasOption(qs), "getoption/absent-key-not-reported")
		return
	}
	nd.Cover("found")
	nd.Assert(got != nil, "getoption/present-key-found")
	if got != nil {
		d, derr := got.Data()
		nd.Assert(derr == nil && d == *want, "getoption/value-of-exactly-that-key")
	}
	nd.Assert(a.CheckOption(q), "getoption/CheckOption-agrees")
}

// H_C17_Keys: static key and IV accessors succeed exactly for 32- and 16-byte values and return them.
//
//verif:props C17
//verif:witness ok bad
func H_C17_Keys() {
	lens := []int{0, 1, 15, 16, 17, 31, 32, 33, 255}
	ls, li := lens[nd.IntRange(0, len(lens)-1)], lens[nd.IntRange(0, len(lens)-1)]
	s, i := nd.String(ls), nd.String(li)
	a := addrFrom(map[string]string{"s": s, "i": i})
	sk, serr := a.StaticKey()
	iv, ierr := a.InitializationVector()
	nd.Assert((serr == nil) == (ls == 32), "statickey/succeeds-iff-32-bytes")
	nd.Assert((ierr == nil) == (li == 16), "iv/succeeds-iff-16-bytes")
	if serr == nil {
		nd.Cover("ok")
		nd.Assert(bytes.Equal(sk[:], []byte(s)), "statickey/returns-the-bytes")
	} else {
		nd.Cover("bad")
	}
	if ierr == nil {
		nd.Assert(bytes.Equal(iv[:], []byte(i)), "iv/returns-the-bytes")
	}
}

// H_C17_HostDecorated: IP literals with zones, ports, brackets and surrounding whitespace ("::1%x", "1.2.3.4:8", " ::1", "[::1]", ...): the accessor and the helper agree with the standard library's net.ParseIP on each of them (a zoned or decorated literal is not an IP literal).
//
//verif:props C17
//verif:witness valid-host invalid-host
func H_C17_HostDecorated() {
	bases := []string{"::1", "1.2.3.4", "::", "fe80::1"}
	base := bases[nd.IntRange(0, len(bases)-1)]
	var host string
	switch nd.IntRange(0, 5) {
	case 0:
		host = base
	case 1:
		host = base + "%" + nd.String(nd.IntRange(1, 2))
	case 2:
		host = base + ":" + nd.String(1)
	case 3:
		host = " " + base
	case 4:
		host = base + nd.String(1)
	case 5:
		host = "[" + base + "]"
	}
	a := addrFrom(map[string]string{"host": host})
	ip := net.ParseIP(host)
	_, herr := a.Host()
	nd.Assert(nd.Implies(herr == nil, ip != nil), "hostdecorated/succeeds-only-for-ip-literal")
	nd.Assert(a.HasValidHost() == (herr == nil), "hostdecorated/HasValidHost-agrees-with-accessor")
	nd.Assert(!nd.Called("net.ResolveIPAddr:non-literal"), "hostdecorated/no-name-resolution")
	if ip != nil {
		nd.Cover("valid-host")
		want := "6"
		if ip.To4() != nil {
			want = "4"
		}
		nd.Assert(a.IPVersion() == want, "hostdecorated/ipversion-matches-family")
	} else {
		nd.Cover("invalid-host")
		nd.Assert(a.IPVersion() == "", "hostdecorated/no-version-for-invalid-host")
	}
}

// wireAddr assembles a RouterAddress encoding with the option pairs in the GIVEN order (the wire parser does not
// require sorted options) and parses it.
func wireAddr(keys, vals []string) (router_address.RouterAddress, bool) {
	var body []byte
	for i := range keys {
		body = append(body, byte(len(keys[i])))
		body = append(body, keys[i]...)
		body = append(body, '=', byte(len(vals[i])))
		body = append(body, vals[i]...)
		body = append(body, ';')
	}
	b := []byte{5, 0, 0, 0, 0, 0, 0, 0, 0, 4, 'S', 'S', 'U', '2', byte(len(body) >> 8), byte(len(body))}
	b = append(b, body...)
	a, _, err := router_address.ReadRouterAddress(b)
	return a, err == nil
}

// H_C17_WireOrder: accessors do not depend on the order in which the options arrived: an address parsed from the wire
// with its options in either order (two arbitrary one-byte keys; "port" before "host") answers GetOption / Host / Port
// as the same options in sorted order do.
//
//verif:props C17
//verif:witness parsed
func H_C17_WireOrder() {
	if nd.Bool() {
		k1, k2 := nd.String(1), nd.String(1)
		v1, v2 := nd.String(1), nd.String(1)
		nd.Assume(k1 != k2)
		a, ok := wireAddr([]string{k1, k2}, []string{v1, v2})
		if !ok {
			return
		}
		nd.Cover("parsed")
		q1, _ := data.ToI2PString(k1)
		q2, _ := data.ToI2PString(k2)
		g1, g2 := a.GetOption(q1), a.GetOption(q2)
		nd.Assert(g1 != nil && g2 != nil, "wireorder/both-keys-found-in-any-order")
		if g1 != nil && g2 != nil {
			d1, _ := g1.Data()
			d2, _ := g2.Data()
			nd.Assert(d1 == v1 && d2 == v2, "wireorder/values-of-their-keys")
		}
		return
	}
	order := nd.Bool()
	keys, vals := []string{"host", "port"}, []string{"1.2.3.4", "8080"}
	if order {
		keys, vals = []string{"port", "host"}, []string{"8080", "1.2.3.4"}
	}
	a, ok := wireAddr(keys, vals)
	nd.Assert(ok, "wireorder/well-formed-address-parses")
	if !ok {
		return
	}
	nd.Cover("parsed")
	h, herr := a.Host()
	nd.Assert(herr == nil && h != nil && h.String() == "1.2.3.4", "wireorder/host-found-in-any-order")
	p, perr := a.Port()
	nd.Assert(perr == nil && p == "8080", "wireorder/port-found-in-any-order")
	nd.Assert(a.HasValidHost() && a.HasValidPort(), "wireorder/validity-helpers-agree")
}
