package c

import (
	"bytes"
	"crypto/ed25519"

	"verifh/nd"

	"github.com/go-i2p/common/data"
	"github.com/go-i2p/common/destination"
	"github.com/go-i2p/common/encrypted_leaseset"
	"github.com/go-i2p/common/lease"
	"github.com/go-i2p/common/lease_set"
	"github.com/go-i2p/common/lease_set2"
	"github.com/go-i2p/common/meta_leaseset"
	"github.com/go-i2p/common/offline_signature"
	"github.com/go-i2p/common/router_address"
	"github.com/go-i2p/common/router_identity"
	"github.com/go-i2p/common/router_info"
	i2ped "github.com/go-i2p/crypto/ed25519"
)

// This file is the independent reference ("spec") side of C02: encodings are assembled here from the I2P
// 0.9.67 common-structures layouts (field order, widths, big-endian, key alignment, optional parts) without
// using /repo, fed to the parsers, and every accessor is compared with the field that was encoded; and
// constructor output is taken apart by offsets computed from the same layouts.

// specPairs encodes option pairs (order given) as a Mapping and writes it at b[off:]; returns the length.
func putMapping(b []byte, off int, ks, vs []string) int {
	m := refEncodeMapping(ks, vs)
	copy(b[off:], m)
	return len(m)
}

func mappingLen(ks, vs []string) int { return len(refEncodeMapping(ks, vs)) }

// smallPairs draws 0..2 option pairs with distinct one- or two-byte keys (sorted, as the specification asks
// of a signer) and 0..2-byte values, all contents symbolic.
func smallPairs() (ks, vs []string) {
	n := nd.IntRange(0, 2)
	for i := 0; i < n; i++ {
		ks = append(ks, nd.String(nd.IntRange(1, 2)))
		vs = append(vs, nd.String(nd.IntRange(0, 2)))
	}
	if n == 2 {
		nd.Assume(ks[0] < ks[1])
	}
	return
}

func checkPairs(tag string, m data.Mapping, ks, vs []string) {
	vals := m.Values()
	nd.Assert(len(vals) == len(ks), tag+"/option-count")
	if len(vals) != len(ks) {
		return
	}
	for i := range ks {
		// compared on the raw I2PString bytes (length prefix + content), branch-free
		wk := append([]byte{byte(len(ks[i]))}, ks[i]...)
		wv := append([]byte{byte(len(vs[i]))}, vs[i]...)
		nd.Assert(nd.And(bytes.Equal(vals[i][0], wk), bytes.Equal(vals[i][1], wv)), tag+"/option-pairs-in-order")
	}
}

// H_C02_LeaseSet2Decode: a LeaseSet2 assembled field by field from the specification layout (with/without offline block, options of 0..2 pairs, 1..2 keys, 0..2 leases) is accepted, consumed exactly, and every accessor returns the encoded field.
//
//verif:props C02
//verif:witness accepted
func H_C02_LeaseSet2Decode() {
	offline := nd.Bool()
	tt := 7
	if offline {
		tt = []int{7, 2, 0}[nd.IntRange(0, 2)] // transient key types with 64-, 96- and 40-byte signatures
	}
	tp, tsl := sigLens(tt)
	ks, vs := smallPairs()
	nk := nd.IntRange(1, 2)
	nl := nd.IntRange(0, 2)
	keyLens := []int{32, 256}
	ml := mappingLen(ks, vs)
	total := 391 + 8
	if offline {
		total += 6 + tp + 64
	}
	total += ml + 1
	for i := 0; i < nk; i++ {
		total += 4 + keyLens[i]
	}
	sigLen := 64
	if offline {
		sigLen = tsl // the trailing signature is made by the transient key
	}
	total += 1 + 40*nl + sigLen
	tail := 3
	in := nd.Bytes(total + tail)
	pinDest(in, 0, 7, 4, 0)
	p := 391
	flagsLow := in[p+7]
	if offline {
		nd.Assume(flagsLow&1 == 1)
	} else {
		nd.Assume(flagsLow&1 == 0)
	}
	p += 8
	offAt := p
	if offline {
		pin(in, p+4, byte(tt>>8), byte(tt))
		p += 6 + tp + 64
	}
	p += putMapping(in, p, ks, vs)
	pin(in, p, byte(nk))
	p++
	var keyAt []int
	for i := 0; i < nk; i++ {
		pin(in, p+2, byte(keyLens[i]>>8), byte(keyLens[i]))
		keyAt = append(keyAt, p)
		p += 4 + keyLens[i]
	}
	pin(in, p, byte(nl))
	p++
	leaseAt := p
	p += 40 * nl
	sigAt := p

	ls, rem, err := lease_set2.ReadLeaseSet2(in)
	nd.Assert(err == nil, "ls2/spec-encoding-accepted")
	if err != nil {
		return
	}
	nd.Cover("accepted")
	nd.Assert(len(rem) == tail && bytes.Equal(rem, in[total:]), "ls2/consumes-exactly-the-encoding")
	d := ls.Destination()
	db, derr := d.Bytes()
	nd.Assert(derr == nil && bytes.Equal(db, in[:391]), "ls2/destination")
	nd.Assert(uint64(ls.Published()) == be(in[391:395]), "ls2/published")
	nd.Assert(uint64(ls.Expires()) == be(in[395:397]), "ls2/expires")
	nd.Assert(uint64(ls.Flags()) == be(in[397:399]), "ls2/flags")
	nd.Assert(ls.HasOfflineKeys() == offline, "ls2/offline-flag")
	if offline {
		o := ls.OfflineSignature()
		nd.Assert(o != nil, "ls2/offline-present")
		if o != nil {
			nd.Assert(uint64(o.Expires()) == be(in[offAt:offAt+4]) && int(o.TransientSigType()) == tt, "ls2/offline-header")
			nd.Assert(bytes.Equal(o.TransientPublicKey(), in[offAt+6:offAt+6+tp]), "ls2/offline-transient-key")
			nd.Assert(bytes.Equal(o.Signature(), in[offAt+6+tp:offAt+6+tp+64]), "ls2/offline-signature")
		}
	} else {
		nd.Assert(ls.OfflineSignature() == nil, "ls2/offline-absent")
	}
	checkPairs("ls2", ls.Options(), ks, vs)
	eks := ls.EncryptionKeys()
	nd.Assert(len(eks) == nk && ls.EncryptionKeyCount() == nk, "ls2/key-count")
	if len(eks) == nk {
		for i := 0; i < nk; i++ {
			a := keyAt[i]
			nd.Assert(uint64(eks[i].KeyType) == be(in[a:a+2]) && int(eks[i].KeyLen) == keyLens[i], "ls2/key-header")
			nd.Assert(bytes.Equal(eks[i].KeyData, in[a+4:a+4+keyLens[i]]), "ls2/key-data")
		}
	}
	lss := ls.Leases()
	nd.Assert(len(lss) == nl && ls.LeaseCount() == nl, "ls2/lease-count")
	if len(lss) == nl {
		for i := 0; i < nl; i++ {
			a := leaseAt + 40*i
			gw := lss[i].TunnelGateway()
			nd.Assert(bytes.Equal(gw[:], in[a:a+32]), "ls2/lease-gateway")
			nd.Assert(uint64(lss[i].TunnelID()) == be(in[a+32:a+36]) && uint64(lss[i].EndDate()) == be(in[a+36:a+40]), "ls2/lease-fields")
		}
	}
	sg := ls.Signature()
	nd.Assert(sg.Type() == tt && bytes.Equal(sg.Bytes(), in[sigAt:sigAt+sigLen]), "ls2/signature")
}

// H_C02_RouterInfoDecode: RouterInfo from the specification layout: identity, published, 0..2 addresses (cost, expiration, transport string, options of 0..1 pairs), peer size 0, options of 0..2 pairs, signature.
//
//verif:props C02
//verif:witness accepted
func H_C02_RouterInfoDecode() {
	maxa := 1
	if nd.Thorough() {
		maxa = 2
	}
	na := nd.IntRange(0, maxa)
	ks, vs := smallPairs()
	type addr struct {
		tlen   int
		ks, vs []string
	}
	var as []addr
	total := 391 + 8 + 1
	for i := 0; i < na; i++ {
		a := addr{tlen: nd.IntRange(1, 2)}
		if nd.Bool() {
			a.ks, a.vs = []string{nd.String(1)}, []string{nd.String(nd.IntRange(0, 1))}
		}
		as = append(as, a)
		total += 9 + 1 + a.tlen + mappingLen(a.ks, a.vs)
	}
	total += 1 + mappingLen(ks, vs) + 64
	in := nd.Bytes(total + 2)
	pinDest(in, 0, 7, 4, 0)
	pin(in, 399, byte(na))
	p := 400
	var at []int
	for _, a := range as {
		at = append(at, p)
		pin(in, p+9, byte(a.tlen))
		p += 10 + a.tlen
		p += putMapping(in, p, a.ks, a.vs)
	}
	peerAt := p
	pin(in, p, 0)
	p++
	p += putMapping(in, p, ks, vs)
	sigAt := p
	ri, rem, err := router_info.ReadRouterInfo(in)
	nd.Assert(err == nil, "ri/spec-encoding-accepted")
	if err != nil {
		return
	}
	nd.Cover("accepted")
	nd.Assert(len(rem) == 2, "ri/consumes-exactly-the-encoding")
	ib, ierr := ri.RouterIdentity().Bytes()
	nd.Assert(ierr == nil && bytes.Equal(ib, in[:391]), "ri/identity")
	nd.Assert(bytes.Equal(ri.Published().Bytes(), in[391:399]), "ri/published")
	nd.Assert(ri.RouterAddressCount() == na && len(ri.RouterAddresses()) == na, "ri/address-count")
	if len(ri.RouterAddresses()) == na {
		for i, a := range as {
			ra := ri.RouterAddresses()[i]
			o := at[i]
			ex := ra.Expiration()
			nd.Assert(ra.Cost() == int(in[o]) && bytes.Equal(ex[:], in[o+1:o+9]), "ri/address-cost-expiration")
			nd.Assert(bytes.Equal(ra.TransportStyle(), in[o+9:o+10+a.tlen]), "ri/address-transport")
			checkPairs("ri/address", ra.Options(), a.ks, a.vs)
		}
	}
	nd.Assert(ri.PeerSize() == int(in[peerAt]), "ri/peer-size")
	checkPairs("ri", ri.Options(), ks, vs)
	sg := ri.Signature()
	nd.Assert(bytes.Equal(sg.Bytes(), in[sigAt:sigAt+64]), "ri/signature")
}

// H_C02_LeaseSetEncDecode: legacy LeaseSet and EncryptedLeaseSet accessors against the specification layout.
//
//verif:props C02
//verif:witness accepted
func H_C02_LeaseSetEncDecode() {
	if nd.Bool() {
		nl := nd.IntRange(0, 2)
		in, total := lsShape{7, 0, 0, nl, 1}.build()
		nd.Assume(in[391] == 0 && in[391+255] >= 2)
		ls, err := lease_set.ReadLeaseSet(in)
		nd.Assert(err == nil, "ls/spec-encoding-accepted")
		if err != nil {
			return
		}
		nd.Cover("accepted")
		d := ls.Destination()
		db, _ := d.Bytes()
		nd.Assert(bytes.Equal(db, in[:391]), "ls/destination")
		pk, perr := ls.PublicKey()
		nd.Assert(perr == nil && bytes.Equal(pk[:], in[391:647]), "ls/encryption-key")
		sk, _ := ls.SigningKey()
		nd.Assert(sk != nil && bytes.Equal(sk.Bytes(), in[647:679]), "ls/signing-key")
		nd.Assert(ls.LeaseCount() == nl && len(ls.Leases()) == nl, "ls/lease-count")
		for i := 0; i < nl && i < len(ls.Leases()); i++ {
			a := 680 + 44*i
			l := ls.Leases()[i]
			gw := l.TunnelGateway()
			dt := l.Date()
			nd.Assert(bytes.Equal(gw[:], in[a:a+32]) && uint64(l.TunnelID()) == be(in[a+32:a+36]) && bytes.Equal(dt[:], in[a+36:a+44]), "ls/lease-fields")
		}
		sg := ls.Signature()
		nd.Assert(bytes.Equal(sg.Bytes(), in[total-64:total]), "ls/signature")
		return
	}
	s := encShape{11, -1, 61, 2}
	in, total := s.build()
	pin(in, 40, 0)
	nd.Assume(in[41]&0xFC == 0)
	nd.Assume(be(in[38:40]) != 0)
	e, rem, err := encrypted_leaseset.ReadEncryptedLeaseSet(in)
	nd.Assert(err == nil, "enc/spec-encoding-accepted")
	if err != nil {
		return
	}
	nd.Cover("accepted")
	nd.Assert(len(rem) == 2, "enc/consumes-exactly-the-encoding")
	nd.Assert(e.SigType() == 11 && bytes.Equal(e.BlindedPublicKey(), in[2:34]), "enc/sigtype-and-key")
	nd.Assert(uint64(e.Published()) == be(in[34:38]) && uint64(e.Expires()) == be(in[38:40]) && uint64(e.Flags()) == be(in[40:42]), "enc/header")
	nd.Assert(int(e.InnerLength()) == 61 && bytes.Equal(e.EncryptedInnerData(), in[44:105]), "enc/inner")
	sg := e.Signature()
	nd.Assert(bytes.Equal(sg.Bytes(), in[total-64:total]), "enc/signature")
}

// H_C02_MetaLeaseSetSpec: a MetaLeaseSet encoded per the specification (MetaLease = hash 32, flags 3 with the entry type in the low 4 bits, cost 1, end date 4; then the revocation count and hashes) is accepted and exposes those fields.
//
//verif:props C02
func H_C02_MetaLeaseSetSpec() {
	ne := nd.IntRange(1, 2)
	nr := nd.IntRange(0, 1)
	total := 391 + 8 + 2 + 1 + 40*ne + 1 + 32*nr + 64
	in := nd.Bytes(total)
	pinDest(in, 0, 7, 4, 0)
	nd.Assume(in[398]&1 == 0)
	pin(in, 399, 0, 0, byte(ne))
	for i := 0; i < ne; i++ {
		a := 402 + 40*i
		pin(in, a+32, 0, 0, 3) // flags: type 3 (LeaseSet2) in the low bits of the third byte
	}
	pin(in, 402+40*ne, byte(nr))
	m, rem, err := meta_leaseset.ReadMetaLeaseSet(in)
	nd.Assert(err == nil, "meta/spec-encoding-accepted")
	if err != nil {
		return
	}
	nd.Assert(len(rem) == 0, "meta/consumes-exactly-the-encoding")
	nd.Assert(m.NumEntries() == ne, "meta/entry-count")
	if m.NumEntries() == ne {
		e := m.Entries()[0]
		h := e.Hash()
		nd.Assert(bytes.Equal(h[:], in[402:434]), "meta/entry-hash")
		nd.Assert(e.Type() == 3 && e.Cost() == in[402+35] && uint64(e.Expires()) == be(in[402+36:402+40]), "meta/entry-fields-per-spec")
	}
}

// H_C02_MetaLeaseSetHeader: the MetaLeaseSet HEADER per specification (destination, published, expires, flags, offline signature BEFORE the options mapping) with 1 or 16 entries in the implementation's own entry layout (the entry layout itself deviates from the specification: recorded known finding of H_C02_MetaLeaseSetSpec).  Keeps header-level changes visible although the entry-level finding is known.
//
//verif:props C02
//verif:witness accepted
func H_C02_MetaLeaseSetHeader() {
	offline := nd.Bool()
	tt := 7
	if offline {
		tt = []int{7, 0}[nd.IntRange(0, 1)]
	}
	tp, tsl := sigLens(tt)
	ks, vs := smallPairs()
	total := 391 + 8
	if offline {
		total += 6 + tp + 64
	}
	ml := mappingLen(ks, vs)
	sigLen := 64
	if offline {
		sigLen = tsl
	}
	// one entry, or (plain header, no options) the maximum of 16
	ne := 1
	if !offline && len(ks) == 0 && nd.Bool() {
		ne = 16
	}
	total += ml + 1 + 40*ne + sigLen
	in := nd.Bytes(total + 1)
	pinDest(in, 0, 7, 4, 0)
	if offline {
		nd.Assume(in[398]&1 == 1)
	} else {
		nd.Assume(in[398]&1 == 0)
	}
	p := 399
	offAt := p
	if offline {
		pin(in, p+4, byte(tt>>8), byte(tt))
		p += 6 + tp + 64
	}
	p += putMapping(in, p, ks, vs)
	pin(in, p, byte(ne))
	entAt := p + 1
	for i := 0; i < ne; i++ {
		pin(in, entAt+40*i+32, 3)
		pin(in, entAt+40*i+38, 0, 0)
	}
	sigAt := entAt + 40*ne
	m, rem, err := meta_leaseset.ReadMetaLeaseSet(in)
	nd.Assert(err == nil, "metaheader/spec-header-accepted")
	if err != nil {
		return
	}
	nd.Cover("accepted")
	nd.Assert(len(rem) == 1, "metaheader/consumes-exactly-the-encoding")
	nd.Assert(m.NumEntries() == ne, "metaheader/entry-count")
	d := m.Destination()
	db, _ := d.Bytes()
	nd.Assert(bytes.Equal(db, in[:391]), "metaheader/destination")
	nd.Assert(uint64(m.Published()) == be(in[391:395]) && uint64(m.Expires()) == be(in[395:397]) && uint64(m.Flags()) == be(in[397:399]), "metaheader/header-fields")
	if offline {
		o := m.OfflineSignature()
		nd.Assert(o != nil, "metaheader/offline-present")
		if o != nil {
			nd.Assert(uint64(o.Expires()) == be(in[offAt:offAt+4]) && int(o.TransientSigType()) == tt, "metaheader/offline-header")
			nd.Assert(bytes.Equal(o.TransientPublicKey(), in[offAt+6:offAt+6+tp]) && bytes.Equal(o.Signature(), in[offAt+6+tp:offAt+6+tp+64]), "metaheader/offline-key-and-signature")
		}
	}
	checkPairs("metaheader", m.Options(), ks, vs)
	sg := m.Signature()
	nd.Assert(bytes.Equal(sg.Bytes(), in[sigAt:sigAt+sigLen]), "metaheader/signature")
}

// H_C02_Encode: values built through the library's constructors serialise to bytes that the reference layout takes apart into the same field values (LeaseSet2, EncryptedLeaseSet, Lease/Lease2, Mapping via C11, key block via C10).
//
//verif:props C02
//verif:witness built
func H_C02_Encode() {
	priv, pub := nd.Ed25519Key()
	switch nd.IntRange(0, 2) {
	case 0:
		dest, _, derr := destination.ReadDestination(identityBytes(4, pub))
		nd.Assume(derr == nil)
		destBytes, _ := dest.Bytes()
		published, expires := nd.Uint32(), nd.Uint16()
		flags := nd.Uint16()
		nd.Assume(flags&0xFFF9 == 0)
		ks, vs := smallPairs()
		mm := map[string]string{}
		for i := range ks {
			mm[ks[i]] = vs[i]
		}
		opts, oerr := data.GoMapToMapping(mm)
		nd.Assume(oerr == nil)
		kd := nd.Bytes(32)
		var l lease.Lease2
		copy(l[:], nd.Bytes(40))
		ls, err := lease_set2.NewLeaseSet2(dest, published, expires, flags, nil, *opts, []lease_set2.EncryptionKey{{KeyType: 4, KeyLen: 32, KeyData: kd}}, []lease.Lease2{l}, ed25519.PrivateKey(priv))
		nd.Assume(err == nil)
		out, berr := ls.Bytes()
		nd.Assert(berr == nil, "ls2/constructed-serialises")
		if berr != nil {
			return
		}
		nd.Cover("built")
		ref := refEncodeMapping(ks, vs)
		want := 391 + 8 + len(ref) + 1 + 4 + 32 + 1 + 40 + 64
		nd.Assert(len(out) == want, "ls2/encoded-length")
		if len(out) != want {
			return
		}
		nd.Assert(bytes.Equal(out[:391], destBytes), "ls2/encodes-destination-first")
		nd.Assert(be(out[391:395]) == uint64(published) && be(out[395:397]) == uint64(expires) && be(out[397:399]) == uint64(flags), "ls2/encodes-header-big-endian")
		p := 399
		nd.Assert(bytes.Equal(out[p:p+len(ref)], ref), "ls2/encodes-options-as-sorted-mapping")
		p += len(ref)
		nd.Assert(out[p] == 1 && be(out[p+1:p+3]) == 4 && be(out[p+3:p+5]) == 32 && bytes.Equal(out[p+5:p+37], kd), "ls2/encodes-key")
		p += 37
		nd.Assert(out[p] == 1 && bytes.Equal(out[p+1:p+41], l[:]), "ls2/encodes-lease")
	case 1:
		published, expires := nd.Uint32(), nd.Uint16()
		nd.Assume(expires != 0)
		inner := nd.Bytes(61)
		e, err := encrypted_leaseset.NewEncryptedLeaseSet(11, pub, published, expires, 0, nil, inner, ed25519.PrivateKey(priv))
		nd.Assume(err == nil)
		out, berr := e.Bytes()
		nd.Assert(berr == nil && len(out) == 2+32+8+2+61+64, "enc/encoded-length")
		if berr != nil || len(out) != 2+32+8+2+61+64 {
			return
		}
		nd.Cover("built")
		nd.Assert(be(out[0:2]) == 11 && bytes.Equal(out[2:34], pub), "enc/encodes-sigtype-and-key")
		nd.Assert(be(out[34:38]) == uint64(published) && be(out[38:40]) == uint64(expires) && be(out[40:42]) == 0, "enc/encodes-header")
		nd.Assert(be(out[42:44]) == 61 && bytes.Equal(out[44:105], inner), "enc/encodes-inner")
	case 2:
		var gw data.Hash
		copy(gw[:], nd.Bytes(32))
		id := nd.Uint32()
		s := nd.Int64()
		nd.Assume(s >= 0 && s < 1<<32)
		l2, err := lease.NewLease2(gw, id, timeUnix(s))
		nd.Assume(err == nil)
		nd.Cover("built")
		b := l2.Bytes()
		nd.Assert(len(b) == 40 && bytes.Equal(b[:32], gw[:]) && be(b[32:36]) == uint64(id) && be(b[36:40]) == uint64(s), "lease2/encoding")
		ms := nd.Int64()
		nd.Assume(ms >= 0)
		l1, err1 := lease.NewLease(gw, id, timeUnixMilli(ms))
		nd.Assume(err1 == nil)
		b1 := l1.Bytes()
		nd.Assert(len(b1) == 44 && bytes.Equal(b1[:32], gw[:]) && be(b1[32:36]) == uint64(id) && be(b1[36:44]) == uint64(ms), "lease/encoding")
	}
}

// H_C02_Encode2: encode direction for the remaining constructors: RouterAddress (cost 1, expiration 8, transport
// string, options mapping), RouterInfo (identity, published 8, address count 1, addresses, peer size 1 = 0, options,
// signature), legacy LeaseSet (destination, 256-byte encryption key, signing key, count 1, 44-byte leases, signature),
// OfflineSignature (expires 4, type 2, key, signature): the bytes are taken apart by reference offsets.
//
//verif:props C02
//verif:witness built
//verif:solver cvc5
func H_C02_Encode2() {
	priv, pub := nd.Ed25519Key()
	switch nd.IntRange(0, 3) {
	case 0:
		cost := nd.Byte()
		ts := nd.String(nd.IntRange(1, 3))
		ks, vs := smallPairs()
		mm := map[string]string{}
		for i := range ks {
			mm[ks[i]] = vs[i]
		}
		a, err := router_address.NewRouterAddress(cost, nowZero(), ts, mm)
		nd.Assume(err == nil)
		nd.Cover("built")
		out := a.Bytes()
		ref := refEncodeMapping(ks, vs)
		want := 1 + 8 + 1 + len(ts) + len(ref)
		nd.Assert(len(out) == want, "ra/encoded-length")
		if len(out) != want {
			return
		}
		nd.Assert(out[0] == cost, "ra/encodes-cost-first")
		nd.Assert(be(out[1:9]) == 0, "ra/encodes-zero-expiration-as-8-zero-bytes")
		nd.Assert(int(out[9]) == len(ts) && string(out[10:10+len(ts)]) == ts, "ra/encodes-transport-as-length-prefixed-string")
		nd.Assert(bytes.Equal(out[10+len(ts):], ref), "ra/encodes-options-as-sorted-mapping")
	case 1:
		ident, _, err := router_identity.ReadRouterIdentity(identityBytes(4, pub))
		nd.Assume(err == nil)
		idb, _ := ident.Bytes()
		na := nd.IntRange(0, 1)
		var addrs []*router_address.RouterAddress
		var ab []byte
		if na == 1 {
			a, aerr := router_address.NewRouterAddress(nd.Byte(), nowZero(), nd.String(2), map[string]string{})
			nd.Assume(aerr == nil)
			addrs = append(addrs, a)
			ab = a.Bytes()
		}
		ks, vs := smallPairs()
		mm := map[string]string{}
		for i := range ks {
			mm[ks[i]] = vs[i]
		}
		ms := nd.Int64()
		nd.Assume(ms >= 0)
		sk := i2ped.Ed25519PrivateKey(priv)
		ri, rerr := router_info.NewRouterInfo(ident, timeUnixMilli(ms), addrs, mm, &sk, 7)
		nd.Assume(rerr == nil && ri != nil)
		out, berr := ri.Bytes()
		nd.Assert(berr == nil, "ri/constructed-serialises")
		if berr != nil {
			return
		}
		nd.Cover("built")
		ref := refEncodeMapping(ks, vs)
		want := 391 + 8 + 1 + len(ab) + 1 + len(ref) + 64
		nd.Assert(len(out) == want, "ri/encoded-length")
		if len(out) != want {
			return
		}
		nd.Assert(bytes.Equal(out[:391], idb), "ri/encodes-identity-first")
		nd.Assert(be(out[391:399]) == uint64(ms), "ri/encodes-published-as-8-byte-milliseconds")
		nd.Assert(int(out[399]) == na && bytes.Equal(out[400:400+len(ab)], ab), "ri/encodes-address-count-and-addresses")
		p := 400 + len(ab)
		nd.Assert(out[p] == 0, "ri/encodes-peer-size-zero")
		nd.Assert(bytes.Equal(out[p+1:p+1+len(ref)], ref), "ri/encodes-options-as-sorted-mapping")
	case 2:
		dest, _, err := destination.ReadDestination(identityBytes(0, pub))
		nd.Assume(err == nil)
		destBytes, _ := dest.Bytes()
		encKey, kerr := dest.PublicKey()
		nd.Assume(kerr == nil)
		ek := encKey.Bytes()
		nd.Assume(ek[0] == 0 && ek[255] >= 2)
		spk, serr := dest.SigningPublicKey()
		nd.Assume(serr == nil)
		n := nd.IntRange(0, 2)
		var leases []lease.Lease
		var lb []byte
		for i := 0; i < n; i++ {
			var l lease.Lease
			copy(l[:], nd.Bytes(44))
			leases = append(leases, l)
			lb = append(lb, l[:]...)
		}
		sk := i2ped.Ed25519PrivateKey(priv)
		ls, lerr := lease_set.NewLeaseSet(dest, encKey, spk, leases, &sk)
		nd.Assume(lerr == nil && ls != nil)
		out, berr := ls.Bytes()
		nd.Assert(berr == nil, "ls/constructed-serialises")
		if berr != nil {
			return
		}
		nd.Cover("built")
		want := 391 + 256 + 32 + 1 + 44*n + 64
		nd.Assert(len(out) == want, "ls/encoded-length")
		if len(out) != want {
			return
		}
		nd.Assert(bytes.Equal(out[:391], destBytes), "ls/encodes-destination-first")
		nd.Assert(bytes.Equal(out[391:647], ek), "ls/encodes-256-byte-encryption-key")
		nd.Assert(bytes.Equal(out[647:679], spk.Bytes()), "ls/encodes-signing-key-of-the-destination-type-length")
		nd.Assert(int(out[679]) == n && bytes.Equal(out[680:680+44*n], lb), "ls/encodes-count-and-44-byte-leases")
	case 3:
		tts := []int{7, 1, 0}
		tt := tts[nd.IntRange(0, len(tts)-1)]
		tp, _ := sigLens(tt)
		exp := nd.Uint32()
		nd.Assume(exp != 0)
		tk := nd.Bytes(tp)
		o, err := offline_signature.CreateOfflineSignature(exp, uint16(tt), tk, ed25519.PrivateKey(priv), 7)
		nd.Assume(err == nil)
		nd.Cover("built")
		out := o.Bytes()
		nd.Assert(len(out) == 6+tp+64, "offline/encoded-length")
		if len(out) != 6+tp+64 {
			return
		}
		nd.Assert(be(out[0:4]) == uint64(exp) && be(out[4:6]) == uint64(tt), "offline/encodes-expires-4-then-type-2")
		nd.Assert(bytes.Equal(out[6:6+tp], tk), "offline/encodes-transient-key")
	}
}
