package c

import (
	"verifh/nd"
)

// sigLens returns (public key length, signature length) of a signing type per the specification.
func sigLens(t int) (int, int) {
	p, s, ok := specSigning(t)
	if !ok {
		panic("shape with unknown signing type")
	}
	return p, s
}

// pinDest pins the certificate of a keys-and-cert block starting at off: sigT<0 means a NULL certificate,
// otherwise a KEY certificate with payload length 4+excess and the given types.  Returns the block length.
// concreteShapes switches the shape builders from symbolic content (nd.Bytes + assumptions) to concrete content (zero
// bytes + the pinned values written): used by sweeps that enumerate (cut point x method) pairs, where symbolic payload
// bytes would only multiply paths.  A harness that sets it resets it with defer.
var concreteShapes bool

func shapeBuf(n int) []byte {
	if concreteShapes {
		return make([]byte, n)
	}
	return nd.Bytes(n)
}

// pinFlag fixes bit 0 of a flags byte (offline keys).
func pinFlag(in []byte, i int, set bool) {
	if concreteShapes {
		if set {
			in[i] |= 1
		}
		return
	}
	if set {
		nd.Assume(in[i]&1 == 1)
	} else {
		nd.Assume(in[i]&1 == 0)
	}
}

func pinDest(in []byte, off int, sigT, cryT, excess int) int {
	c := off + 384
	if sigT < 0 {
		pin(in, c, 0, 0, 0)
		return 387
	}
	pin(in, c, 5, 0, byte(4+excess), byte(sigT>>8), byte(sigT), byte(cryT>>8), byte(cryT))
	return 387 + 4 + excess
}

func destSigType(sigT int) int {
	if sigT < 0 {
		return 0
	}
	return sigT
}

// ls2Shape describes the length-deciding fields of a LeaseSet2; everything else stays symbolic.
type ls2Shape struct {
	sigT, cryT int   // destination key certificate types; sigT < 0: NULL certificate (DSA/ElGamal)
	excess     int   // extra certificate payload bytes
	offline    int   // -1: none; otherwise the transient signing type
	optSize    int   // options mapping size field (content free)
	keyLens    []int // encryption key lengths (types free)
	leases     int
	trailing   int
}

// size returns the length of the encoding without trailing bytes.
func (s ls2Shape) size() int {
	n := 387
	if s.sigT >= 0 {
		n += 4 + s.excess
	}
	n += 8
	if s.offline >= 0 {
		tp, _ := sigLens(s.offline)
		_, ds := sigLens(destSigType(s.sigT))
		n += 6 + tp + ds
	}
	n += 2 + s.optSize + 1
	for _, k := range s.keyLens {
		n += 4 + k
	}
	n += 1 + 40*s.leases
	if s.offline >= 0 {
		_, ts := sigLens(s.offline)
		n += ts
	} else {
		_, ds := sigLens(destSigType(s.sigT))
		n += ds
	}
	return n
}

// build draws the input and pins the length-deciding bytes.  Returns the input and the encoding length.
func (s ls2Shape) build() ([]byte, int) {
	total := s.size()
	in := shapeBuf(total + s.trailing)
	p := pinDest(in, 0, s.sigT, s.cryT, s.excess)
	// published(4) expires(2) flags(2): only the OFFLINE_KEYS bit is pinned
	if s.offline >= 0 {
		pinFlag(in, p+7, true)
	} else {
		pinFlag(in, p+7, false)
	}
	p += 8
	if s.offline >= 0 {
		pin(in, p+4, byte(s.offline>>8), byte(s.offline))
		tp, _ := sigLens(s.offline)
		_, ds := sigLens(destSigType(s.sigT))
		p += 6 + tp + ds
	}
	pin(in, p, byte(s.optSize>>8), byte(s.optSize))
	p += 2 + s.optSize
	pin(in, p, byte(len(s.keyLens)))
	p++
	for _, k := range s.keyLens {
		pin(in, p+2, byte(k>>8), byte(k))
		p += 4 + k
	}
	pin(in, p, byte(s.leases))
	return in, total
}

func ls2Shapes() []ls2Shape {
	sh := []ls2Shape{
		{7, 4, 0, -1, 0, []int{32}, 1, 2},
		{7, 4, 0, -1, 0, []int{32, 256}, 2, 0},
		{7, 0, 0, -1, 0, []int{0, 32}, 0, 3},
		{7, 4, 0, 7, 0, []int{32}, 1, 2},
		{7, 4, 2, -1, 0, []int{32}, 1, 1},
		{11, 4, 0, -1, 0, []int{32}, 1, 0},
		{1, 0, 0, -1, 0, []int{32}, 1, 0},
		{-1, 0, 0, -1, 0, []int{256}, 1, 0},
		{7, 4, 0, -1, 6, []int{32}, 1, 0},
		{7, 4, 0, 1, 0, []int{32}, 0, 0},
		{7, 4, 0, 0, 0, []int{32}, 1, 0},
		{7, 4, 0, -1, 10, []int{32}, 1, 0},
		{7, 4, 0, -1, 0, []int{32}, 7, 0},
		{7, 4, 0, -1, 0, []int{32}, 16, 1},
	}
	if nd.Thorough() {
		sh = append(sh,
			ls2Shape{7, 4, 0, 2, 0, []int{32}, 1, 0},
			ls2Shape{0, 0, 0, -1, 0, []int{32}, 2, 0},
			ls2Shape{2, 0, 0, -1, 0, []int{32}, 1, 0},
			ls2Shape{7, 4, 0, -1, 9, []int{32, 32}, 2, 3},
			ls2Shape{7, 4, 0, 7, 7, []int{32}, 1, 3},
			ls2Shape{7, 4, 0, -1, 0, []int{32}, 16, 0},
			ls2Shape{11, 4, 0, 11, 0, []int{32}, 1, 0},
			ls2Shape{7, 4, 8, -1, 0, []int{1}, 1, 0},
			ls2Shape{-1, 0, 0, 7, 0, []int{256}, 1, 0},
		)
	}
	return sh
}

// covShape records a per-shape reachability witness: tag + "/" + letter of the shape index.
func covShape(tag string, idx int) {
	nd.Cover(tag + "/" + string(rune('a'+idx)))
}

// expShape declares that shape idx has to reach the witness tag on some path.
func expShape(tag string, idx int) {
	nd.Expect(tag + "/" + string(rune('a'+idx)))
}

// metaShape: MetaLeaseSet length-deciding fields.
type metaShape struct {
	sigT, cryT int
	excess     int
	offline    int
	optSize    int
	propSizes  []int // per entry: properties mapping size
	trailing   int
}

func (s metaShape) build() ([]byte, int) {
	n := 387
	if s.sigT >= 0 {
		n += 4 + s.excess
	}
	hdr := n
	n += 8
	off := n
	if s.offline >= 0 {
		tp, _ := sigLens(s.offline)
		_, ds := sigLens(destSigType(s.sigT))
		n += 6 + tp + ds
	}
	opt := n
	n += 2 + s.optSize
	cnt := n
	n++
	var ents []int
	for _, p := range s.propSizes {
		ents = append(ents, n)
		n += 38 + 2 + p
	}
	if s.offline >= 0 {
		_, ts := sigLens(s.offline)
		n += ts
	} else {
		_, ds := sigLens(destSigType(s.sigT))
		n += ds
	}
	in := shapeBuf(n + s.trailing)
	pinDest(in, 0, s.sigT, s.cryT, s.excess)
	if s.offline >= 0 {
		pinFlag(in, hdr+7, true)
		pin(in, off+4, byte(s.offline>>8), byte(s.offline))
	} else {
		pinFlag(in, hdr+7, false)
	}
	pin(in, opt, byte(s.optSize>>8), byte(s.optSize))
	pin(in, cnt, byte(len(s.propSizes)))
	for i, e := range ents {
		pin(in, e+38, byte(s.propSizes[i]>>8), byte(s.propSizes[i]))
		if len(ents) > 3 {
			pin(in, e+32, 3) // many entries: the entry type is pinned (3 feasible values each would multiply)
		}
	}
	return in, n
}

func metaShapes() []metaShape {
	sh := []metaShape{
		{7, 4, 0, -1, 0, []int{0}, 2},
		{7, 4, 0, -1, 0, []int{0, 0}, 0},
		{7, 0, 0, 7, 0, []int{0}, 3}, // offline block AND trailing bytes: the remainder after the transient-key signature
		{7, 4, 0, -1, 6, []int{0}, 0},
		{7, 4, 0, -1, 0, []int{5}, 1},
		{-1, 0, 0, -1, 0, []int{0, 0}, 0},
		{1, 0, 2, -1, 0, []int{0}, 0},
		{7, 4, 0, 0, 0, []int{0}, 0},
		{7, 4, 0, -1, 0, []int{5, 0}, 0},
		{7, 4, 0, -1, 0, []int{0, 0, 0, 0, 0, 0, 0}, 0},
	}
	if nd.Thorough() {
		sh = append(sh,
			metaShape{7, 4, 0, 1, 0, []int{0}, 0},
			metaShape{7, 4, 0, -1, 10, []int{10}, 0},
			metaShape{7, 4, 0, -1, 8, []int{6, 0}, 3},
			metaShape{11, 4, 0, -1, 0, []int{0, 0, 0}, 0},
			metaShape{7, 4, 0, -1, 0, []int{0, 0, 0, 0, 0, 0, 0, 0, 0, 0, 0, 0, 0, 0, 0, 0}, 0},
		)
	}
	return sh
}

// encShape: EncryptedLeaseSet length-deciding fields.
type encShape struct {
	sigT     int
	offline  int
	inner    int
	trailing int
}

func (s encShape) build() ([]byte, int) {
	kp, ks := sigLens(s.sigT)
	n := 2 + kp
	hdr := n
	n += 8
	off := n
	if s.offline >= 0 {
		tp, _ := sigLens(s.offline)
		n += 6 + tp + ks
	}
	il := n
	n += 2 + s.inner
	if s.offline >= 0 {
		_, ts := sigLens(s.offline)
		n += ts
	} else {
		n += ks
	}
	in := shapeBuf(n + s.trailing)
	pin(in, 0, byte(s.sigT>>8), byte(s.sigT))
	if s.offline >= 0 {
		pinFlag(in, hdr+7, true)
		pin(in, off+4, byte(s.offline>>8), byte(s.offline))
	} else {
		pinFlag(in, hdr+7, false)
	}
	pin(in, il, byte(s.inner>>8), byte(s.inner))
	return in, n
}

func encShapes() []encShape {
	sh := []encShape{
		{7, -1, 61, 2},
		{11, -1, 61, 0},
		{11, 7, 62, 2},
		{7, -1, 200, 0},
		{1, -1, 61, 0},
		{0, -1, 61, 1},
		{11, 0, 61, 0},
		{7, 2, 61, 0},
	}
	if nd.Thorough() {
		sh = append(sh, encShape{11, 11, 100, 3}, encShape{7, 1, 61, 0}, encShape{2, -1, 300, 0}, encShape{1, 7, 61, 0})
	}
	return sh
}

// lsShape: legacy LeaseSet.
type lsShape struct {
	sigT, cryT int
	excess     int
	leases     int
	trailing   int
}

func (s lsShape) build() ([]byte, int) {
	n := 387
	if s.sigT >= 0 {
		n += 4 + s.excess
	}
	sp, ss := sigLens(destSigType(s.sigT))
	n += 256 + sp
	cnt := n
	n += 1 + 44*s.leases + ss
	in := shapeBuf(n + s.trailing)
	pinDest(in, 0, s.sigT, s.cryT, s.excess)
	pin(in, cnt, byte(s.leases))
	return in, n
}

func lsShapes() []lsShape {
	sh := []lsShape{
		{-1, 0, 0, 1, 2},
		{7, 0, 0, 1, 0},
		{7, 0, 0, 0, 0},
		{1, 0, 0, 2, 0},
		{7, 4, 0, 1, 0},
		{7, 0, 3, 1, 1},
		{7, 0, 0, 16, 0},
		{7, 0, 0, 6, 0},
	}
	if nd.Thorough() {
		sh = append(sh, lsShape{2, 0, 0, 1, 0}, lsShape{0, 0, 0, 2, 0}, lsShape{7, 0, 0, 11, 0}, lsShape{11, 4, 0, 1, 0})
	}
	return sh
}

// raShape: one RouterAddress: cost(1) date(8) transport string (1+tlen) options (2+optSize).
type raShape struct {
	tlen, optSize int
}

func (a raShape) size() int { return 9 + 1 + a.tlen + 2 + a.optSize }

func (a raShape) pinAt(in []byte, off int) {
	pin(in, off+9, byte(a.tlen))
	pin(in, off+10+a.tlen, byte(a.optSize>>8), byte(a.optSize))
}

// riShape: RouterInfo.
type riShape struct {
	sigT, cryT int
	excess     int
	addrs      []raShape
	optSize    int
	trailing   int
}

func (s riShape) build() ([]byte, int) {
	n := 387
	if s.sigT >= 0 {
		n += 4 + s.excess
	}
	n += 8
	cnt := n
	n++
	var ao []int
	for _, a := range s.addrs {
		ao = append(ao, n)
		n += a.size()
	}
	peer := n
	n++
	opt := n
	n += 2 + s.optSize
	_, ss := sigLens(destSigType(s.sigT))
	n += ss
	in := shapeBuf(n + s.trailing)
	pinDest(in, 0, s.sigT, s.cryT, s.excess)
	pin(in, cnt, byte(len(s.addrs)))
	for i, a := range s.addrs {
		a.pinAt(in, ao[i])
	}
	_ = peer
	pin(in, opt, byte(s.optSize>>8), byte(s.optSize))
	return in, n
}

func riShapes() []riShape {
	sh := []riShape{
		{7, 4, 0, nil, 0, 2},
		{7, 4, 0, []raShape{{2, 0}}, 0, 0},
		{7, 4, 0, []raShape{{3, 5}}, 6, 0},
		{7, 0, 0, []raShape{{1, 0}, {2, 0}}, 0, 1},
		{-1, 0, 0, nil, 5, 0},
		{1, 0, 0, []raShape{{0, 0}}, 0, 0},
		{7, 4, 2, nil, 0, 0},
		{7, 4, 0, nil, 10, 0},
		{7, 4, 0, nil, 0, 40}, // enough trailing bytes for a parser that (wrongly) skips peer_size hashes to still find a signature
	}
	if nd.Thorough() {
		sh = append(sh,
			riShape{7, 4, 0, []raShape{{4, 10}}, 8, 3},
			riShape{0, 0, 0, []raShape{{2, 0}}, 0, 0},
			riShape{2, 0, 0, nil, 0, 0},
			riShape{7, 4, 0, []raShape{{2, 6}, {2, 6}}, 0, 0},
		)
	}
	return sh
}
