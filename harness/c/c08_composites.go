package c

import (
	"bytes"

	"verifh/nd"

	"github.com/go-i2p/common/encrypted_leaseset"
	"github.com/go-i2p/common/lease"
	"github.com/go-i2p/common/lease_set"
	"github.com/go-i2p/common/lease_set2"
	"github.com/go-i2p/common/meta_leaseset"
	"github.com/go-i2p/common/offline_signature"
	"github.com/go-i2p/common/signature"
)

// observe helpers: everything the statement lists for a structure, flattened into one byte string.

func obsOffline(o *offline_signature.OfflineSignature) []byte {
	if o == nil {
		return []byte{0xEE}
	}
	out := clone(o.Bytes())
	out = append(out, o.TransientPublicKey()...)
	out = append(out, o.Signature()...)
	out = append(out, o.SignedData()...)
	e := o.Expires()
	return append(out, byte(e>>24), byte(e>>16), byte(e>>8), byte(e), byte(o.TransientSigType()>>8), byte(o.TransientSigType()))
}

func obsLS2(v *lease_set2.LeaseSet2, withOptions bool) []byte {
	var out []byte
	d := v.Destination()
	db, _ := d.Bytes()
	out = append(out, db...)
	for _, k := range v.EncryptionKeys() {
		out = append(out, byte(k.KeyType>>8), byte(k.KeyType), byte(k.KeyLen>>8), byte(k.KeyLen))
		out = append(out, k.KeyData...)
	}
	for _, l := range v.Leases() {
		out = append(out, l.Bytes()...)
	}
	out = append(out, obsOffline(v.OfflineSignature())...)
	sg := v.Signature()
	out = append(out, sg.Bytes()...)
	if withOptions {
		b, _ := v.Bytes()
		out = append(out, b...)
	}
	return out
}

func obsMeta(v *meta_leaseset.MetaLeaseSet, withOptions bool) []byte {
	var out []byte
	d := v.Destination()
	db, _ := d.Bytes()
	out = append(out, db...)
	for _, e := range v.Entries() {
		h := e.Hash()
		out = append(out, h[:]...)
		x := e.Expires()
		out = append(out, e.Type(), e.Cost(), byte(x>>24), byte(x>>16), byte(x>>8), byte(x))
	}
	out = append(out, obsOffline(v.OfflineSignature())...)
	sg := v.Signature()
	out = append(out, sg.Bytes()...)
	if withOptions {
		b, _ := v.Bytes()
		out = append(out, b...)
	}
	return out
}

// H_C08_Composites: LeaseSet2 and MetaLeaseSet (identity, keys, leases/entries, offline block, signature; the whole serialisation when options and properties are empty), EncryptedLeaseSet, legacy LeaseSet, Signature, OfflineSignature and leases do not change when the input buffer is overwritten after parsing.
//
//verif:props C08
//verif:policies tight runtime
//verif:witness accepted
func H_C08_Composites() {
	switch nd.IntRange(0, 6) {
	case 0:
		shapes := ls2Shapes()
		s := shapes[nd.IntRange(0, len(shapes)-1)]
		in, _ := s.build()
		v, _, err := lease_set2.ReadLeaseSet2(in)
		if err != nil {
			return
		}
		nd.Cover("accepted")
		a := obsLS2(&v, s.optSize == 0)
		nd.Havoc(in)
		nd.Assert(bytes.Equal(a, obsLS2(&v, s.optSize == 0)), "ls2/stable-after-overwriting-input")
	case 1:
		shapes := metaShapes()
		s := shapes[nd.IntRange(0, len(shapes)-1)]
		in, _ := s.build()
		v, _, err := meta_leaseset.ReadMetaLeaseSet(in)
		if err != nil {
			return
		}
		nd.Cover("accepted")
		plain := s.optSize == 0
		for _, p := range s.propSizes {
			if p != 0 {
				plain = false
			}
		}
		a := obsMeta(&v, plain)
		nd.Havoc(in)
		nd.Assert(bytes.Equal(a, obsMeta(&v, plain)), "meta/stable-after-overwriting-input")
	case 2:
		shapes := encShapes()
		s := shapes[nd.IntRange(0, len(shapes)-1)]
		in, _ := s.build()
		v, _, err := encrypted_leaseset.ReadEncryptedLeaseSet(in)
		if err != nil {
			return
		}
		nd.Cover("accepted")
		obs := func() []byte {
			b, _ := v.Bytes()
			out := clone(b)
			out = append(out, v.BlindedPublicKey()...)
			out = append(out, v.EncryptedInnerData()...)
			out = append(out, obsOffline(v.OfflineSignature())...)
			sg := v.Signature()
			return append(out, sg.Bytes()...)
		}
		a := obs()
		nd.Havoc(in)
		nd.Assert(bytes.Equal(a, obs()), "enc/stable-after-overwriting-input")
		// accessors documented to return copies
		k := v.BlindedPublicKey()
		d := v.EncryptedInnerData()
		nd.Havoc(k)
		nd.Havoc(d)
		nd.Assert(bytes.Equal(a, obs()), "enc/accessor-copies-are-independent")
	case 3:
		shapes := lsShapes()
		s := shapes[nd.IntRange(0, len(shapes)-1)]
		in, _ := s.build()
		v, err := lease_set.ReadLeaseSet(in)
		if err != nil {
			return
		}
		nd.Cover("accepted")
		obs := func() []byte {
			b, _ := v.Bytes()
			out := clone(b)
			for _, l := range v.Leases() {
				out = append(out, l.Bytes()...)
			}
			sk, _ := v.SigningKey()
			if sk != nil {
				out = append(out, sk.Bytes()...)
			}
			pk, _ := v.PublicKey()
			out = append(out, pk[:]...)
			sg := v.Signature()
			return append(out, sg.Bytes()...)
		}
		a := obs()
		nd.Havoc(in)
		nd.Assert(bytes.Equal(a, obs()), "ls/stable-after-overwriting-input")
	case 4:
		types := []int{0, 1, 7, 11, 3}
		t := types[nd.IntRange(0, len(types)-1)]
		_, ss := sigLens(t)
		in := nd.Bytes(ss + 2*nd.IntRange(0, 1)) // exact fit and trailing bytes
		v, _, err := signature.ReadSignature(in, t)
		if err != nil {
			return
		}
		nd.Cover("accepted")
		a := clone(v.Bytes())
		nd.Havoc(in)
		nd.Assert(bytes.Equal(a, v.Bytes()) && bytes.Equal(a, v.Serialize()), "sig/stable-after-overwriting-input")
		k := v.Bytes()
		nd.Havoc(k)
		nd.Assert(bytes.Equal(a, v.Bytes()), "sig/Bytes-returns-a-copy")
		p, _, perr := signature.NewSignature(in, t)
		if perr == nil && p != nil {
			b := clone(p.Bytes())
			nd.Havoc(in)
			nd.Assert(bytes.Equal(b, p.Bytes()), "sig/NewSignature-stable")
		}
	case 5:
		tts := []int{7, 1, 0}
		tt := tts[nd.IntRange(0, 2)]
		tp, _ := sigLens(tt)
		in := nd.Bytes(6 + tp + 64 + nd.IntRange(0, 1)) // exact fit and one trailing byte
		pin(in, 4, byte(tt>>8), byte(tt))
		v, _, err := offline_signature.ReadOfflineSignature(in, 7)
		if err != nil {
			return
		}
		nd.Cover("accepted")
		a := obsOffline(&v)
		nd.Havoc(in)
		nd.Assert(bytes.Equal(a, obsOffline(&v)), "offline/stable-after-overwriting-input")
		k, sg, sd := v.TransientPublicKey(), v.Signature(), v.SignedData()
		nd.Havoc(k)
		nd.Havoc(sg)
		nd.Havoc(sd)
		nd.Assert(bytes.Equal(a, obsOffline(&v)), "offline/accessor-copies-are-independent")
	case 6:
		in := nd.Bytes(46)
		l, _, err := lease.ReadLease(in)
		l2, _, err2 := lease.ReadLease2(in)
		if err != nil || err2 != nil {
			return
		}
		nd.Cover("accepted")
		a, b := clone(l.Bytes()), clone(l2.Bytes())
		nd.Havoc(in)
		nd.Assert(bytes.Equal(a, l.Bytes()) && bytes.Equal(b, l2.Bytes()), "lease/stable-after-overwriting-input")
	}
}
