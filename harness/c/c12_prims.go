package c

import (
	"bytes"
	"time"

	"verifh/nd"

	"github.com/go-i2p/common/data"
)

// H_C12_IntFromInt: NewIntegerFromInt / EncodeIntN accept exactly 0<=v<2^(8n), 1<=n<=8, and decode back; v and n are free 64-bit values.
//
//verif:props C12 C19
//verif:witness ok rejected
func H_C12_IntFromInt() {
	v := nd.Int()
	n := nd.Int()
	fits := v >= 0 && n >= 1 && n <= 8 && (n == 8 || uint64(v)>>(uint(n)*8) == 0)
	i, err := data.NewIntegerFromInt(v, n)
	e, err2 := data.EncodeIntN(v, n)
	nd.Assert((err == nil) == fits, "int/accept-iff-fits")
	nd.Assert((err2 == nil) == fits, "encodeintn/accept-iff-fits")
	if err != nil || err2 != nil {
		nd.Cover("rejected")
		return
	}
	nd.Cover("ok")
	b := i.Bytes()
	nd.Assert(len(b) == n, "int/width")
	nd.Assert(len(e) == n, "encodeintn/width")
	nd.Assert(bytes.Equal(b, e), "int/agree-encodeintn")
	nd.Assert(be(b) == uint64(v), "int/big-endian")
	nd.Assert(i.Int() == v, "int/Int")
	s, serr := i.IntSafe()
	nd.Assert(serr == nil && s == v, "int/IntSafe")
	u, uerr := i.UintSafe()
	nd.Assert(uerr == nil && u == uint64(v), "int/UintSafe")
	d, derr := data.DecodeIntN(e)
	nd.Assert(derr == nil && d == v, "decodeintn/inverse")
}

// H_C12_ReadInteger: ReadInteger never returns a complete value for short input; size free.
//
//verif:props C12 C03 C01 C04
//verif:witness complete short
func H_C12_ReadInteger() {
	n := nd.IntRange(0, 10)
	size := nd.Int()
	in := nd.Bytes(n)
	i, rem := data.ReadInteger(in, size)
	if size < 1 || size > 8 {
		nd.Assert(i == nil, "readint/bad-size-nil")
		return
	}
	if n < size {
		nd.Cover("short")
		nd.Assert(len(i) < size, "readint/short-incomplete")
		nd.Assert(len(rem) == 0, "readint/short-norem")
		return
	}
	nd.Cover("complete")
	nd.Assert(len(i) == size, "readint/width")
	checkRT("readint", in, rem, i.Bytes())
	u, err := i.UintSafe()
	nd.Assert(err == nil && u == be(in[:size]), "readint/uintsafe-full-range")
	nd.Assert(i.Int() == int(be(in[:size])), "readint/int")
}

// H_C12_Fixed: fixed-width Encode*/Decode* helpers are mutually inverse and big-endian.
//
//verif:props C12
func H_C12_Fixed() {
	a := nd.Uint16()
	e2 := data.EncodeUint16(a)
	nd.Assert(be(e2[:]) == uint64(a), "u16/be")
	nd.Assert(data.DecodeUint16(e2) == a, "u16/inv")
	b := nd.Uint32()
	e4 := data.EncodeUint32(b)
	nd.Assert(be(e4[:]) == uint64(b), "u32/be")
	nd.Assert(data.DecodeUint32(e4) == b, "u32/inv")
	c := nd.Uint64()
	e8 := data.EncodeUint64(c)
	nd.Assert(be(e8[:]) == c, "u64/be")
	nd.Assert(data.DecodeUint64(e8) == c, "u64/inv")
	sa := int16(a)
	s2 := data.EncodeInt16(sa)
	nd.Assert(be(s2[:]) == uint64(a), "i16/be")
	nd.Assert(data.DecodeInt16(s2) == sa, "i16/inv")
	sb := int32(b)
	s4 := data.EncodeInt32(sb)
	nd.Assert(be(s4[:]) == uint64(b), "i32/be")
	nd.Assert(data.DecodeInt32(s4) == sb, "i32/inv")
	sc := int64(c)
	s8 := data.EncodeInt64(sc)
	nd.Assert(be(s8[:]) == c, "i64/be")
	nd.Assert(data.DecodeInt64(s8) == sc, "i64/inv")
	var raw [8]byte
	copy(raw[:], nd.Bytes(8))
	nd.Assert(data.EncodeUint64(data.DecodeUint64(raw)) == raw, "u64/inv2")
}

// H_C12_DateMillis: NewDateFromMillis(m) for every m >= 0: Int()==m, big-endian bytes, Time().UnixMilli()==m; negative rejected.
//
//verif:props C12 C15
//verif:solver cvc5
//verif:witness ok
func H_C12_DateMillis() {
	m := nd.Int64()
	d, err := data.NewDateFromMillis(m)
	if m < 0 {
		nd.Assert(err != nil, "datemillis/negative-rejected")
		return
	}
	nd.Assert(err == nil && d != nil, "datemillis/accepted")
	if err != nil || d == nil {
		return
	}
	nd.Cover("ok")
	nd.Assert(be(d.Bytes()) == uint64(m), "datemillis/bytes")
	nd.Assert(d.Int() == int(m), "datemillis/int")
	nd.Assert(d.Time().UnixMilli() == m, "datemillis/time")
}

// H_C12_DateUnix: NewDateFromUnix(s): accepted values store s*1000 exactly.
//
//verif:props C12 C15
//verif:solver cvc5
func H_C12_DateUnix() {
	s := nd.Int64()
	d, err := data.NewDateFromUnix(s)
	if s < 0 {
		nd.Assert(err != nil, "dateunix/negative-rejected")
		return
	}
	if err != nil {
		// rejected: must be because s*1000 does not fit
		nd.Assert(s > (1<<63-1)/1000, "dateunix/reject-only-overflow")
		return
	}
	nd.Assert(s <= (1<<63-1)/1000, "dateunix/no-wrapped-value")
	nd.Assert(be(d.Bytes()) == uint64(s)*1000, "dateunix/exact")
}

// H_C12_DateFromTime: DateFromTime(time.Unix(s,ns)) stores floor milliseconds for in-range instants.
//
//verif:props C12 C15
//verif:solver cvc5
func H_C12_DateFromTime() {
	s := nd.Int64()
	ns := nd.Int64()
	nd.Assume(s >= 0 && s <= (1<<63-1)/1000-1)
	nd.Assume(ns >= 0 && ns < 1000000000)
	d, err := data.DateFromTime(time.Unix(s, ns))
	nd.Assert(err == nil && d != nil, "datefromtime/accepted")
	if err != nil || d == nil {
		return
	}
	nd.Assert(be(d.Bytes()) == uint64(s)*1000+uint64(ns)/1000000, "datefromtime/exact")
}

// H_C12_ReadDate: ReadDate round trip and framing, N in 0..10.
//
//verif:props C12 C01 C03 C04
//verif:witness ok
func H_C12_ReadDate() {
	n := nd.IntRange(0, 10)
	in := nd.Bytes(n)
	d, rem, err := data.ReadDate(in)
	if n < 8 {
		nd.Assert(err != nil, "readdate/short-rejected")
		return
	}
	nd.Assert(err == nil, "readdate/accepted")
	if err != nil {
		return
	}
	nd.Cover("ok")
	checkRT("readdate", in, rem, d.Bytes())
	nd.Assert(uint64(d.Int()) == be(in[:8]), "readdate/int")
	p, rem2, err2 := data.NewDate(in)
	nd.Assert(err2 == nil && p != nil && *p == d && bytes.Equal(rem2, rem), "newdate/agrees")
}

// H_C12_StringNew: NewI2PString / ToI2PString for lengths 0,1,2,255 accept and round trip; 256 rejects.
//
//verif:props C12 C19
//verif:witness ok rejected
func H_C12_StringNew() {
	lens := []int{0, 1, 2, 255, 256, 257}
	n := lens[nd.IntRange(0, len(lens)-1)]
	s := nd.String(n)
	a, err := data.NewI2PString(s)
	b, err2 := data.ToI2PString(s)
	nd.Assert((err == nil) == (n <= 255), "string/new-accept-iff-255")
	nd.Assert((err2 == nil) == (n <= 255), "string/to-accept-iff-255")
	if err != nil || err2 != nil {
		nd.Cover("rejected")
		return
	}
	nd.Cover("ok")
	nd.Assert(bytes.Equal(a, b), "string/entrypoints-agree")
	nd.Assert(len(a) == n+1 && int(a[0]) == n, "string/length-prefix")
	nd.Assert(string(a[1:]) == s, "string/content")
	d, derr := a.Data()
	nd.Assert(derr == nil && d == s, "string/Data")
	l, lerr := a.Length()
	nd.Assert(lerr == nil && l == n, "string/Length")
	r, rem, rerr := data.ReadI2PString(a)
	nd.Assert(rerr == nil && len(rem) == 0 && bytes.Equal(r, a), "string/read-back")
}

// H_C12_ReadString: ReadI2PString on free input: a complete value only when the declared length is available; round trip.
//
//verif:props C12 C01 C03 C04
//verif:witness ok short
//verif:fanout 300
func H_C12_ReadString() {
	var n int
	if nd.Bool() {
		n = nd.IntRange(0, 6)
	} else {
		lens := []int{255, 256, 257, 300}
		n = lens[nd.IntRange(0, len(lens)-1)]
	}
	in := nd.Bytes(n)
	s, rem, err := data.ReadI2PString(in)
	if n == 0 {
		nd.Assert(err != nil, "readstring/empty-rejected")
		return
	}
	decl := int(in[0])
	if decl+1 > n {
		nd.Cover("short")
		nd.Assert(err != nil, "readstring/short-rejected")
		return
	}
	nd.Assert(err == nil, "readstring/accepted")
	if err != nil {
		return
	}
	nd.Cover("ok")
	k := checkRT("readstring", in, rem, s)
	nd.Assert(k == decl+1, "readstring/extent")
	d, derr := s.Data()
	nd.Assert(derr == nil && d == string(in[1:1+decl]), "readstring/data")
}

// H_C12_DecodeIntN: DecodeIntN / NewIntegerFromBytes on arbitrary 0..9 bytes: big-endian value for 1..8 bytes that fit a non-negative int, error otherwise; IntSafe agrees.
//
//verif:props C12 C04
func H_C12_DecodeIntN() {
	n := nd.IntRange(0, 9)
	b := nd.Bytes(n)
	v, err := data.DecodeIntN(b)
	fits := n >= 1 && n <= 8 && be(b) <= 1<<63-1
	nd.Assert((err == nil) == fits, "decodeintn/accepts-iff-1-8-bytes-and-fits-int")
	if err == nil {
		nd.Assert(uint64(v) == be(b), "decodeintn/big-endian-value")
	}
	i, ierr := data.NewIntegerFromBytes(b)
	nd.Assert((ierr == nil) == (n >= 1 && n <= 8), "integerfrombytes/accepts-1-8-bytes")
	if ierr == nil {
		nd.Assert(bytes.Equal(i.Bytes(), b), "integerfrombytes/same-bytes")
		u, uerr := i.UintSafe()
		nd.Assert(uerr == nil && u == be(b), "integerfrombytes/uintsafe-full-range")
	}
}
