package c

import (
	"verifh/nd"

	"github.com/go-i2p/common/lease_set2"
)

// H_C01_LeaseSet2: ReadLeaseSet2 -> Bytes on the LeaseSet2 shape grid (destination types, offline block, options region, key lengths, lease counts, trailing bytes); all content symbolic.
//
//verif:props C01 C03 C04
//verif:witness accepted
func H_C01_LeaseSet2() {
	shapes := ls2Shapes()
	i := nd.IntRange(0, len(shapes)-1)
	expShape("accepted", i)
	in, total := shapes[i].build()
	ls, rem, err := lease_set2.ReadLeaseSet2(in)
	if err != nil {
		return
	}
	nd.Cover("accepted")
	covShape("accepted", i)
	out, berr := ls.Bytes()
	nd.Assert(berr == nil, "ls2/bytes-ok")
	if berr != nil {
		return
	}
	c := checkRT("ls2", in, rem, out)
	nd.Assert(c == total, "ls2/extent")
}
