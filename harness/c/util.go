package c

import (
	"bytes"
	"time"

	"verifh/nd"
)

// checkRT asserts the C01/C03 framing facts for a parser that returned (value, rem) on input in
// and whose value serialises to out: rem is the suffix of in, and out equals the consumed bytes.
func checkRT(tag string, in, rem, out []byte) int {
	nd.Assert(len(rem) <= len(in), tag+"/remlen")
	k := len(in) - len(rem)
	nd.Assert(bytes.Equal(rem, in[k:]), tag+"/rem-suffix")
	nd.Assert(bytes.Equal(out, in[:k]), tag+"/roundtrip")
	return k
}

func pin(b []byte, off int, vals ...byte) {
	for i, v := range vals {
		if concreteShapes {
			b[off+i] = v
			continue
		}
		nd.Assume(b[off+i] == v)
	}
}

// be returns the big-endian value of b (len <= 8) computed independently of /repo.
func be(b []byte) uint64 {
	var v uint64
	for _, x := range b {
		v = v<<8 | uint64(x)
	}
	return v
}

// cAssert is nd.Assert (kept as a function so that harness code may shadow the package name locally).
func cAssert(c bool, label string) { nd.Assert(c, label) }

func nowZero() (t time.Time) { return }

func timeUnix(s int64) time.Time       { return time.Unix(s, 0) }
func timeUnixMilli(ms int64) time.Time { return time.UnixMilli(ms) }
