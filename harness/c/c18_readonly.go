package c

import (
	"verifh/nd"

	"github.com/go-i2p/common/certificate"
	"github.com/go-i2p/common/data"
	"github.com/go-i2p/common/destination"
	"github.com/go-i2p/common/encrypted_leaseset"
	"github.com/go-i2p/common/key_certificate"
	"github.com/go-i2p/common/keys_and_cert"
	"github.com/go-i2p/common/lease_set"
	"github.com/go-i2p/common/lease_set2"
	"github.com/go-i2p/common/meta_leaseset"
	"github.com/go-i2p/common/offline_signature"
	"github.com/go-i2p/common/router_address"
	"github.com/go-i2p/common/router_identity"
	"github.com/go-i2p/common/router_info"
	"github.com/go-i2p/common/signature"
)

// H_C18_ReadOnly: write-set reduction of C18.  A value is parsed (or built), every object that exists is frozen, then one read-only exported operation (generated list: all exported methods except Set*/Add*/With*/Build/Remove*) runs: it must not write to any pre-existing object (receiver graph, input buffer) nor to package-level state.  If no read-only operation writes shared memory, any number of concurrent readers are race-free and each returns what it returns alone.  Explored under both append-growth policies.
//
//verif:props C18
//verif:policies tight roomy runtime
//verif:witness swept
//verif:fanout 400
func H_C18_ReadOnly() {
	which := nd.IntRange(0, 13)
	covShape("case", which)
	switch which {
	case 0:
		c, _, err := certificate.ReadCertificate(nd.Bytes(nd.IntRange(3, 8)))
		if err == nil {
			i := nd.IntRange(0, n_sweepRO_certificate_Certificate-1)
			nd.Freeze()
			sweepRO_certificate_Certificate(c, i)
			nd.Thaw()
			nd.Cover("swept")
		}
	case 1:
		c, _, err := key_certificate.NewKeyCertificate(nd.Bytes(nd.IntRange(7, 9)))
		if err == nil {
			i := nd.IntRange(0, n_sweepRO_key_certificate_KeyCertificate-1)
			nd.Freeze()
			sweepRO_key_certificate_KeyCertificate(c, i)
			nd.Thaw()
			nd.Cover("swept")
		}
	case 2:
		var k *keys_and_cert.KeysAndCert
		var err error
		if nd.Bool() {
			k, _, err = keys_and_cert.ReadKeysAndCert(pinnedIdentity())
		} else {
			// a value assembled field by field (exported fields), with nil, empty or exact padding
			p, _, perr := keys_and_cert.ReadKeysAndCert(pinnedIdentity())
			if perr != nil {
				return
			}
			pads := [][]byte{nil, {}, p.Padding}
			k = &keys_and_cert.KeysAndCert{KeyCertificate: p.KeyCertificate, ReceivingPublic: p.ReceivingPublic, Padding: pads[nd.IntRange(0, 2)], SigningPublic: p.SigningPublic}
		}
		if err == nil {
			i := nd.IntRange(0, n_sweepRO_keys_and_cert_KeysAndCert-1)
			nd.Freeze()
			sweepRO_keys_and_cert_KeysAndCert(k, i)
			nd.Thaw()
			nd.Cover("swept")
		}
	case 3:
		d, _, err := destination.ReadDestination(pinnedIdentity())
		if err == nil {
			i := nd.IntRange(0, n_sweepRO_destination_Destination-1)
			nd.Freeze()
			sweepRO_destination_Destination(&d, i)
			nd.Thaw()
			nd.Cover("swept")
		}
	case 4:
		r, _, err := router_identity.ReadRouterIdentity(pinnedIdentity())
		if err == nil {
			i := nd.IntRange(0, n_sweepRO_router_identity_RouterIdentity-1)
			nd.Freeze()
			sweepRO_router_identity_RouterIdentity(r, i)
			nd.Thaw()
			nd.Cover("swept")
		}
	case 5:
		in, _ := ls2Shapes()[[]int{0, 3, 8}[nd.IntRange(0, 2)]].build()
		v, _, err := lease_set2.ReadLeaseSet2(in)
		if err == nil {
			i := nd.IntRange(0, n_sweepRO_lease_set2_LeaseSet2-1)
			nd.Freeze()
			sweepRO_lease_set2_LeaseSet2(&v, i)
			nd.Thaw()
			nd.Cover("swept")
		}
	case 6:
		in, _ := metaShapes()[[]int{0, 2}[nd.IntRange(0, 1)]].build()
		v, _, err := meta_leaseset.ReadMetaLeaseSet(in)
		if err == nil {
			i := nd.IntRange(0, n_sweepRO_meta_leaseset_MetaLeaseSet-1)
			nd.Freeze()
			sweepRO_meta_leaseset_MetaLeaseSet(&v, i)
			nd.Thaw()
			nd.Cover("swept")
		}
	case 7:
		in, _ := encShapes()[nd.IntRange(0, 2)].build()
		v, _, err := encrypted_leaseset.ReadEncryptedLeaseSet(in)
		if err == nil {
			i := nd.IntRange(0, n_sweepRO_encrypted_leaseset_EncryptedLeaseSet-1)
			nd.Freeze()
			sweepRO_encrypted_leaseset_EncryptedLeaseSet(&v, i)
			nd.Thaw()
			nd.Cover("swept")
		}
	case 8:
		shapes := append(lsShapes()[:3:3], lsShape{7, 0, 0, 2, 0}) // ... and two leases in any order of dates
		in, _ := shapes[nd.IntRange(0, len(shapes)-1)].build()
		v, err := lease_set.ReadLeaseSet(in)
		if err == nil {
			i := nd.IntRange(0, n_sweepRO_lease_set_LeaseSet-1)
			nd.Freeze()
			sweepRO_lease_set_LeaseSet(&v, i)
			nd.Thaw()
			nd.Cover("swept")
		}
	case 9:
		in, _ := riShapes()[nd.IntRange(0, 1)].build()
		v, _, err := router_info.ReadRouterInfo(in)
		if err == nil {
			i := nd.IntRange(0, n_sweepRO_router_info_RouterInfo-1)
			nd.Freeze()
			sweepRO_router_info_RouterInfo(&v, i)
			nd.Thaw()
			nd.Cover("swept")
		}
	case 10:
		v, _, err := router_address.ReadRouterAddress(nd.Bytes(nd.IntRange(12, 14)))
		if err == nil {
			i := nd.IntRange(0, n_sweepRO_router_address_RouterAddress-1)
			nd.Freeze()
			sweepRO_router_address_RouterAddress(&v, i)
			nd.Thaw()
			nd.Cover("swept")
		}
	case 11:
		var mb []byte
		if nd.Bool() {
			mb = nd.Bytes(nd.IntRange(2, 8))
		} else {
			// two or three one-character keys in any order (the wire parser does not require sorted keys)
			np := nd.IntRange(2, 3)
			mb = nd.Bytes(2 + 5*np)
			pin(mb, 0, 0, byte(5*np))
			for j := 0; j < np; j++ {
				pin(mb, 2+5*j, 1)
				pin(mb, 2+5*j+2, '=', 0, ';')
			}
		}
		v, _, errs := data.ReadMapping(mb)
		if len(errs) == 0 {
			i := nd.IntRange(0, n_sweepRO_data_Mapping-1)
			nd.Freeze()
			sweepRO_data_Mapping(&v, i)
			nd.Thaw()
			nd.Cover("swept")
		}
	case 12:
		in := nd.Bytes(6 + 32 + 64)
		pin(in, 4, 0, 7)
		v, _, err := offline_signature.ReadOfflineSignature(in, 7)
		if err == nil {
			i := nd.IntRange(0, n_sweepRO_offline_signature_OfflineSignature-1)
			nd.Freeze()
			sweepRO_offline_signature_OfflineSignature(&v, i)
			nd.Thaw()
			nd.Cover("swept")
		}
	case 13:
		// size lookups and a constructed mapping
		code := nd.Int()
		nd.Freeze()
		_, _ = key_certificate.GetSignatureSize(code)
		_, _ = key_certificate.GetKeySizes(code, code)
		_, _ = signature.SignatureSize(code)
		_ = offline_signature.SignatureSize(uint16(code))
		nd.Thaw()
		m, err := data.GoMapToMapping(smallOptions())
		if err == nil {
			i := nd.IntRange(0, n_sweepRO_data_Mapping-1)
			nd.Freeze()
			sweepRO_data_Mapping(m, i)
			nd.Thaw()
			nd.Cover("swept")
		}
	}
}
