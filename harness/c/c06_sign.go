package c

import (
	"bytes"
	"crypto/ed25519"
	"time"

	"verifh/nd"

	"github.com/go-i2p/common/data"
	"github.com/go-i2p/common/destination"
	"github.com/go-i2p/common/encrypted_leaseset"
	"github.com/go-i2p/common/lease"
	"github.com/go-i2p/common/lease_set"
	"github.com/go-i2p/common/lease_set2"
	"github.com/go-i2p/common/offline_signature"
	"github.com/go-i2p/common/router_address"
	"github.com/go-i2p/common/router_identity"
	"github.com/go-i2p/common/router_info"
	i2ped "github.com/go-i2p/crypto/ed25519"
)

// identityBytes returns a symbolic keys-and-cert encoding with an Ed25519 (type 7) key certificate, the
// given crypto type and the given public signing key at the end of the key block.
func identityBytes(cryT int, pub []byte) []byte {
	return identityBytesX(cryT, pub, 0)
}

// identityBytesX: as identityBytes with `excess` extra (symbolic) payload bytes in the key certificate.
func identityBytesX(cryT int, pub []byte, excess int) []byte {
	b := nd.Bytes(391 + excess)
	pin(b, 384, 5, 0, byte(4+excess), 0, 7, byte(cryT>>8), byte(cryT))
	copy(b[352:384], pub)
	return b
}

func smallOptions() map[string]string {
	m := map[string]string{}
	n := nd.IntRange(0, 2)
	for i := 0; i < n; i++ {
		m[nd.String(nd.IntRange(1, 2))] = nd.String(nd.IntRange(0, 1))
	}
	return m
}

func tinyOptions() map[string]string {
	m := map[string]string{}
	if nd.Bool() {
		m[nd.String(nd.IntRange(0, 1))] = nd.String(nd.IntRange(0, 1)) // the empty key is a legal key
	}
	return m
}

// H_C06_RouterInfo: NewRouterInfo with the identity's private key verifies, and still verifies after Bytes -> ReadRouterInfo.
//
//verif:props C06
//verif:witness signed reparsed
func H_C06_RouterInfo() {
	priv, pub := nd.Ed25519Key()
	cry := []int{4, 0}[nd.IntRange(0, 1)]
	ident, _, err := router_identity.ReadRouterIdentity(identityBytes(cry, pub))
	nd.Assume(err == nil)
	var addrs []*router_address.RouterAddress
	na := nd.IntRange(0, 2)
	for i := 0; i < na; i++ {
		ts, opts := nd.String(nd.IntRange(1, 2)), map[string]string{}
		if na == 2 && !nd.Thorough() {
			ts = nd.String(2) // two addresses (costs free, in any order): transport length and options pinned in the quick tier
		} else {
			opts = tinyOptions()
		}
		a, aerr := router_address.NewRouterAddress(nd.Byte(), time.Time{}, ts, opts)
		nd.Assert(aerr == nil, "ri/address-constructed")
		if aerr != nil {
			return
		}
		addrs = append(addrs, a)
	}
	sk := i2ped.Ed25519PrivateKey(priv)
	ms := nd.Int64()
	nd.Assume(ms >= 0)
	ropts := map[string]string{}
	if na < 2 || nd.Thorough() {
		ropts = smallOptions()
	}
	ri, rerr := router_info.NewRouterInfo(ident, time.UnixMilli(ms), addrs, ropts, &sk, 7)
	nd.Assert(rerr == nil && ri != nil, "ri/constructed")
	if rerr != nil || ri == nil {
		return
	}
	nd.Cover("signed")
	ok, verr := ri.VerifySignature()
	nd.Assert(verr == nil && ok, "ri/verifies-after-signing")
	b, berr := ri.Bytes()
	nd.Assert(berr == nil, "ri/bytes-ok")
	if berr != nil {
		return
	}
	back, rem, perr := router_info.ReadRouterInfo(b)
	nd.Assert(perr == nil && len(rem) == 0, "ri/reparse-ok")
	if perr != nil {
		return
	}
	nd.Cover("reparsed")
	ok2, verr2 := back.VerifySignature()
	nd.Assert(verr2 == nil && ok2, "ri/verifies-after-wire")
}

// H_C06_LeaseSet: NewLeaseSet with the destination's private key verifies before and after the wire.
//
//verif:props C06
//verif:witness signed reparsed
func H_C06_LeaseSet() {
	priv, pub := nd.Ed25519Key()
	dest, _, err := destination.ReadDestination(identityBytes(0, pub))
	nd.Assume(err == nil)
	encKey, kerr := dest.PublicKey()
	nd.Assume(kerr == nil)
	// the wire parser re-validates the ElGamal key range; stay inside the certainly-valid region
	ek := encKey.Bytes()
	nd.Assume(ek[0] == 0 && ek[255] >= 2)
	spk, serr := dest.SigningPublicKey()
	nd.Assume(serr == nil)
	if nd.Bool() {
		// the signing_key field (revocation key) is an independent key, not a repetition of the destination's
		_, other := nd.Ed25519Key()
		ok, oerr := i2ped.NewEd25519PublicKey(other)
		nd.Assume(oerr == nil)
		spk = ok
	}
	n := nd.IntRange(0, 2)
	var leases []lease.Lease
	for i := 0; i < n; i++ {
		var l lease.Lease
		copy(l[:], nd.Bytes(44))
		leases = append(leases, l)
	}
	sk := i2ped.Ed25519PrivateKey(priv)
	ls, lerr := lease_set.NewLeaseSet(dest, encKey, spk, leases, &sk)
	nd.Assert(lerr == nil && ls != nil, "ls/constructed")
	if lerr != nil || ls == nil {
		return
	}
	nd.Cover("signed")
	nd.Assert(ls.Verify() == nil, "ls/verifies-after-signing")
	b, berr := ls.Bytes()
	nd.Assert(berr == nil, "ls/bytes-ok")
	if berr != nil {
		return
	}
	back, perr := lease_set.ReadLeaseSet(b)
	nd.Assert(perr == nil, "ls/reparse-ok")
	if perr != nil {
		return
	}
	nd.Cover("reparsed")
	nd.Assert(back.Verify() == nil, "ls/verifies-after-wire")
	bk, bkerr := back.SigningKey()
	nd.Assert(bkerr == nil && bk != nil && bytes.Equal(bk.Bytes(), spk.Bytes()), "ls/signing-key-field-survives-wire")
}

// H_C06_OfflineSignature: CreateOfflineSignature output verifies under the signing key's public half, before and after the wire.
//
//verif:props C06
//verif:witness signed
func H_C06_OfflineSignature() {
	priv, pub := nd.Ed25519Key()
	dts := []int{7, 11, 8}
	dt := dts[nd.IntRange(0, len(dts)-1)]
	tts := []int{7, 1, 0, 3, 4, 2, 6}
	tt := tts[nd.IntRange(0, len(tts)-1)]
	tp, _ := sigLens(tt)
	exp := nd.Uint32()
	nd.Assume(exp != 0)
	o, err := offline_signature.CreateOfflineSignature(exp, uint16(tt), nd.Bytes(tp), ed25519.PrivateKey(priv), uint16(dt))
	nd.Assert(err == nil, "offline/constructed")
	if err != nil {
		return
	}
	nd.Cover("signed")
	ok, verr := o.VerifySignature(pub)
	nd.Assert(verr == nil && ok, "offline/verifies-after-signing")
	back, rem, perr := offline_signature.ReadOfflineSignature(o.Bytes(), uint16(dt))
	nd.Assert(perr == nil && len(rem) == 0, "offline/reparse-ok")
	if perr != nil {
		return
	}
	ok2, verr2 := back.VerifySignature(pub)
	nd.Assert(verr2 == nil && ok2, "offline/verifies-after-wire")
}

// H_C06_EncryptedLeaseSet: NewEncryptedLeaseSet signed with the blinded key's private half verifies before and after the wire (with and without an offline block).
//
//verif:props C06
//verif:witness signed reparsed
func H_C06_EncryptedLeaseSet() {
	priv, pub := nd.Ed25519Key()
	st := []int{11, 7}[nd.IntRange(0, 1)]
	flags := nd.Uint16()
	nd.Assume(flags&0xFFFC == 0)
	exp := nd.Uint16()
	nd.Assume(exp != 0)
	inner := nd.Bytes([]int{61, 62}[nd.IntRange(0, 1)])
	var off *offline_signature.OfflineSignature
	signKey := priv
	if flags&1 != 0 {
		tpriv, tpub := nd.Ed25519Key()
		oe := nd.Uint32()
		nd.Assume(oe != 0)
		o, oerr := offline_signature.CreateOfflineSignature(oe, 7, tpub, ed25519.PrivateKey(priv), uint16(st))
		nd.Assume(oerr == nil)
		off = &o
		signKey = tpriv
	}
	var key interface{}
	switch nd.IntRange(0, 1) {
	case 0:
		key = ed25519.PrivateKey(signKey)
	case 1:
		key = signKey
	}
	e, err := encrypted_leaseset.NewEncryptedLeaseSet(uint16(st), pub, nd.Uint32(), exp, flags, off, inner, key)
	nd.Assert(err == nil && e != nil, "enc/constructed")
	if err != nil || e == nil {
		return
	}
	nd.Cover("signed")
	nd.Assert(e.Verify() == nil, "enc/verifies-after-signing")
	b, berr := e.Bytes()
	nd.Assert(berr == nil, "enc/bytes-ok")
	if berr != nil {
		return
	}
	back, rem, perr := encrypted_leaseset.ReadEncryptedLeaseSet(b)
	nd.Assert(perr == nil && len(rem) == 0, "enc/reparse-ok")
	if perr != nil {
		return
	}
	nd.Cover("reparsed")
	nd.Assert(back.Verify() == nil, "enc/verifies-after-wire")
}

// H_C06_LeaseSet2: NewLeaseSet2 with the destination's private key verifies before and after the wire.
//
//verif:props C06
//verif:witness constructed
func H_C06_LeaseSet2() {
	priv, pub := nd.Ed25519Key()
	sigT := []int{7, 11}[nd.IntRange(0, 1)]
	dest, ok := destWithSigType(sigT, pub)
	nd.Assume(ok)
	flags := nd.Uint16()
	nd.Assume(flags&0xFFF8 == 0) // no reserved bits
	var off *offline_signature.OfflineSignature
	signKey := priv
	if flags&1 != 0 {
		// offline keys: the destination key authorises a transient key, the transient key signs the lease set
		tpriv, tpub := nd.Ed25519Key()
		oe := nd.Uint32()
		nd.Assume(oe != 0)
		o, oerr := offline_signature.CreateOfflineSignature(oe, 7, tpub, ed25519.PrivateKey(priv), uint16(sigT))
		nd.Assume(oerr == nil)
		off = &o
		signKey = tpriv
	}
	var l lease.Lease2
	copy(l[:], nd.Bytes(40))
	keys := []lease_set2.EncryptionKey{{KeyType: 4, KeyLen: 32, KeyData: nd.Bytes(32)}}
	opts, oerr := data.GoMapToMapping(smallOptions())
	nd.Assume(oerr == nil)
	ls, lerr := lease_set2.NewLeaseSet2(dest, nd.Uint32(), nd.Uint16(), flags, off, *opts, keys, []lease.Lease2{l}, ed25519.PrivateKey(signKey))
	nd.Assert(lerr == nil, "ls2/constructed")
	if lerr != nil {
		return
	}
	nd.Cover("constructed")
	nd.Assert(ls.Verify() == nil, "ls2/verifies-after-signing")
	b, berr := ls.Bytes()
	nd.Assert(berr == nil, "ls2/bytes-ok")
	if berr != nil {
		return
	}
	back, rem, perr := lease_set2.ReadLeaseSet2(b)
	nd.Assert(perr == nil && len(rem) == 0, "ls2/reparse-ok")
	if perr != nil {
		return
	}
	nd.Assert(back.Verify() == nil, "ls2/verifies-after-wire")
}
