package c

import (
	"verifh/nd"

	"github.com/go-i2p/common/destination"
	"github.com/go-i2p/common/key_certificate"
	"github.com/go-i2p/common/keys_and_cert"
	"github.com/go-i2p/common/router_identity"
)

const kacN = 387 + 8 + 2

// kacInput: 397 symbolic bytes; certificate type, declared length (<= 8) and all key-type bytes free.
func kacInput() []byte {
	in := nd.Bytes(kacN)
	nd.Assume(in[385] == 0 && in[386] <= 8)
	return in
}

// H_C01_KeysAndCert: ReadKeysAndCert -> Bytes round trip; the solver enumerates every accepted (signing, crypto) pair, NULL certificates and excess payload.
//
//verif:props C01 C03 C04
//verif:witness accepted
func H_C01_KeysAndCert() {
	in := kacInput()
	k, rem, err := keys_and_cert.ReadKeysAndCert(in)
	if err != nil {
		return
	}
	nd.Cover("accepted")
	out, berr := k.Bytes()
	nd.Assert(berr == nil, "kac/bytes-ok")
	if berr != nil {
		return
	}
	c := checkRT("kac", in, rem, out)
	nd.Assert(c == 387+int(in[386]), "kac/extent")
}

// H_C01_Destination: ReadDestination -> Bytes round trip (same free shape).
//
//verif:props C01 C03 C04
//verif:witness accepted
func H_C01_Destination() {
	in := kacInput()
	d, rem, err := destination.ReadDestination(in)
	if err != nil {
		return
	}
	nd.Cover("accepted")
	out, berr := d.Bytes()
	nd.Assert(berr == nil, "dest/bytes-ok")
	if berr != nil {
		return
	}
	c := checkRT("dest", in, rem, out)
	nd.Assert(c == 387+int(in[386]), "dest/extent")
}

// H_C01_RouterIdentity: ReadRouterIdentity -> Bytes round trip (same free shape).
//
//verif:props C01 C03 C04
//verif:witness accepted
func H_C01_RouterIdentity() {
	in := kacInput()
	r, rem, err := router_identity.ReadRouterIdentity(in)
	if err != nil {
		return
	}
	nd.Cover("accepted")
	out, berr := r.Bytes()
	nd.Assert(berr == nil, "ident/bytes-ok")
	if berr != nil {
		return
	}
	c := checkRT("ident", in, rem, out)
	nd.Assert(c == 387+int(in[386]), "ident/extent")
}

// H_C01_KeyCert: NewKeyCertificate -> Bytes round trip, free-form N in 0..14.
//
//verif:props C01 C03 C04
//verif:witness accepted
func H_C01_KeyCert() {
	n := nd.IntRange(0, 14)
	in := nd.Bytes(n)
	kc, rem, err := key_certificate.NewKeyCertificate(in)
	if err != nil {
		return
	}
	nd.Cover("accepted")
	out := kc.Bytes()
	c := checkRT("keycert", in, rem, out)
	nd.Assert(c == 3+int(be(in[1:3])), "keycert/extent")
}
