package c

import (
	"bytes"
	"errors"

	"verifh/nd"

	"github.com/go-i2p/common/base64"
	"github.com/go-i2p/common/data"
	"github.com/go-i2p/common/destination"
	"github.com/go-i2p/common/key_certificate"
	"github.com/go-i2p/common/keys_and_cert"
	"github.com/go-i2p/common/router_identity"
	"github.com/go-i2p/common/router_info"
)

// H_C07_Destination: Hash = hash of exactly the consumed identity bytes; Base32Address = unpadded I2P base32 of it + ".b32.i2p" (60 chars); Base64 = I2P base64 of the identity bytes and decodes back.
//
//verif:props C07
//verif:witness accepted
func H_C07_Destination() {
	in := kacInput()
	d, rem, err := destination.ReadDestination(in)
	if err != nil {
		return
	}
	nd.Cover("accepted")
	id := in[:len(in)-len(rem)]
	want := nd.Hash(id)
	h, herr := d.Hash()
	nd.Assert(herr == nil && h == want, "dest/hash-of-identity-bytes")
	a, aerr := d.Base32Address()
	nd.Assert(aerr == nil, "dest/b32-ok")
	nd.Assert(len(a) == 60, "dest/b32-length-60")
	nd.Assert(a == string(refBase32(want[:], false))+".b32.i2p", "dest/b32-is-unpadded-base32-of-hash")
	b, berr := d.Base64()
	nd.Assert(berr == nil && b == string(refBase64(id)), "dest/b64-of-identity-bytes")
	if nd.Thorough() {
		back, derr := base64.DecodeString(b)
		nd.Assert(derr == nil && bytes.Equal(back, id), "dest/b64-decodes-back")
	}
}

// H_C07_RouterIdentity: RouterIdentity hash through RouterInfo.IdentHash, and String() stability is not part of the claim.
//
//verif:props C07
//verif:witness accepted
func H_C07_RouterInfoIdentHash() {
	shapes := riShapes()
	s := shapes[nd.IntRange(0, 2)]
	in, _ := s.build()
	ri, _, err := router_info.ReadRouterInfo(in)
	if err != nil {
		return
	}
	nd.Cover("accepted")
	idLen := destLen(s.sigT, s.excess)
	h, herr := ri.IdentHash()
	want := nd.Hash(in[:idLen])
	nd.Assert(herr == nil && h.Bytes() == want, "ri/identhash-of-identity-bytes")
	ib, ierr := ri.RouterIdentity().Bytes()
	nd.Assert(ierr == nil && bytes.Equal(ib, in[:idLen]), "ri/identity-bytes")
}

// H_C07_Equality: two independently symbolic identities compare equal exactly when their serialisations are equal; with hash injectivity assumed, different bytes give different hashes.
//
//verif:props C07
//verif:witness both-accepted
func H_C07_Equality() {
	// identity shapes are pinned here (two free-typed identities would multiply to ~10^5 paths); content,
	// padding and certificate payload stay symbolic
	kinds := [][3]int{{7, 4, 0}, {7, 0, 0}, {-1, 0, 0}, {7, 4, 2}, {1, 0, 0}}
	ka := kinds[nd.IntRange(0, len(kinds)-1)]
	kb := kinds[nd.IntRange(0, len(kinds)-1)]
	a := nd.Bytes(kacN)
	b := nd.Bytes(kacN)
	pinDest(a, 0, ka[0], ka[1], ka[2])
	pinDest(b, 0, kb[0], kb[1], kb[2])
	if nd.Bool() {
		da, ra, ea := destination.ReadDestination(a)
		db, rb, eb := destination.ReadDestination(b)
		if ea != nil || eb != nil {
			return
		}
		nd.Cover("both-accepted")
		same := bytes.Equal(a[:len(a)-len(ra)], b[:len(b)-len(rb)])
		nd.Assert(da.Equals(&db) == same, "dest/equals-iff-same-bytes")
		ha, _ := da.Hash()
		hb, _ := db.Hash()
		nd.AssumeHashInjective()
		nd.Assert(nd.Or(same, ha != hb), "dest/different-bytes-different-hash")
		nd.Assert(nd.Or(!same, ha == hb), "dest/same-bytes-same-hash")
		return
	}
	ia, ra, ea := router_identity.ReadRouterIdentity(a)
	ib, rb, eb := router_identity.ReadRouterIdentity(b)
	if ea != nil || eb != nil {
		return
	}
	nd.Cover("both-accepted")
	same := bytes.Equal(a[:len(a)-len(ra)], b[:len(b)-len(rb)])
	nd.Assert(ia.Equal(ib) == same, "ident/equal-iff-same-bytes")
}

// H_C07_AddressInjective: the 52-character address encoding is injective on 32-byte hashes (decided by the solver over the real encoding/base32 code).
//
//verif:props C07
//verif:tier thorough
func H_C07_AddressInjective() {
	h1 := nd.Bytes(32)
	h2 := nd.Bytes(32)
	nd.Assume(!bytes.Equal(h1, h2))
	nd.Assert(string(refBase32(h1, false)) != string(refBase32(h2, false)), "b32/reference-injective")
}

// H_C07_AfterMutation: the hash and address follow the CURRENT identity: after the identity of a parsed RouterInfo /
// Destination is changed in place (a padding byte through the live pointer, or the whole KeysAndCert replaced by
// another parsed one), IdentHash / Hash / Base32Address are those of the new identity bytes, not a remembered value.
//
//verif:props C07
//verif:witness mutated
func H_C07_AfterMutation() {
	switch nd.IntRange(0, 1) {
	case 0:
		in, _ := riShape{7, 4, 0, nil, 0, 0}.build()
		ri, _, err := router_info.ReadRouterInfo(in)
		if err != nil {
			return
		}
		h0, e0 := ri.IdentHash()
		nd.Assert(e0 == nil && h0.Bytes() == nd.Hash(in[:391]), "mut/ri/identhash-before")
		id := ri.RouterIdentity()
		if nd.Bool() {
			nd.Assume(len(id.KeysAndCert.Padding) > 10)
			id.KeysAndCert.Padding[10] ^= 0x55
		} else {
			other := nd.Bytes(391)
			pinDest(other, 0, 7, 4, 0)
			k, _, kerr := keys_and_cert.ReadKeysAndCert(other)
			nd.Assume(kerr == nil)
			id.KeysAndCert = k
		}
		nb, berr := id.Bytes()
		nd.Assume(berr == nil)
		nd.Cover("mutated")
		h1, e1 := ri.IdentHash()
		nd.Assert(e1 == nil && h1.Bytes() == nd.Hash(nb), "mut/ri/identhash-follows-current-identity")
	case 1:
		in := nd.Bytes(391)
		pinDest(in, 0, 7, 4, 0)
		d, _, err := destination.ReadDestination(in)
		if err != nil {
			return
		}
		h0, e0 := d.Hash()
		a0, ae0 := d.Base32Address()
		nd.Assert(e0 == nil && ae0 == nil && h0 == nd.Hash(in), "mut/dest/hash-before")
		nd.Assume(len(d.KeysAndCert.Padding) > 10)
		d.KeysAndCert.Padding[10] ^= 0x55
		nb, berr := d.Bytes()
		nd.Assume(berr == nil)
		nd.Cover("mutated")
		h1, e1 := d.Hash()
		nd.Assert(e1 == nil && h1 == nd.Hash(nb), "mut/dest/hash-follows-current-identity")
		a1, ae1 := d.Base32Address()
		_ = a0
		nd.Assert(ae1 == nil && a1 == string(refBase32(h1[:], false))+".b32.i2p", "mut/dest/address-follows-current-identity")
	}
}

// H_C07_Constructed: identities that were CONSTRUCTED, not parsed (NewKeysAndCert with exact padding; a KeysAndCert
// struct literal whose padding is nil, short, exact or overlong, wrapped by NewDestination /
// NewRouterIdentityFromKeysAndCert): whenever the value serialises, its hash is the hash of that serialisation and the
// address is the base32 of that hash.
//
//verif:props C07
//verif:witness hashed
func H_C07_Constructed() {
	ct := []int{4, 0}[nd.IntRange(0, 1)]
	cs, _ := specCrypto(ct)
	kc, err := key_certificate.NewKeyCertificateWithTypes(7, ct)
	nd.Assume(err == nil)
	pk, perr := kc.ConstructPublicKey(append(nd.Bytes(cs), make([]byte, 256-cs)...))
	nd.Assume(perr == nil)
	sk, serr := kc.ConstructSigningPublicKey(nd.Bytes(32))
	nd.Assume(serr == nil)
	exact := 384 - cs - 32
	pl := []int{-1, 0, exact - 1, exact, exact + 1}[nd.IntRange(0, 4)]
	var pad []byte
	if pl >= 0 {
		pad = nd.Bytes(pl)
	}
	kac := &keys_and_cert.KeysAndCert{KeyCertificate: kc, ReceivingPublic: pk, Padding: pad, SigningPublic: sk}
	if nd.Bool() {
		d, derr := destination.NewDestination(kac)
		if derr != nil || d == nil {
			return
		}
		b, berr := d.Bytes()
		if berr != nil {
			return
		}
		nd.Cover("hashed")
		h, herr := d.Hash()
		nd.Assert(herr == nil && h == nd.Hash(b), "constructed/dest/hash-of-serialisation")
		a, aerr := d.Base32Address()
		nd.Assert(aerr == nil && a == string(refBase32(h[:], false))+".b32.i2p", "constructed/dest/address-of-hash")
		return
	}
	r, rerr := router_identity.NewRouterIdentityFromKeysAndCert(kac)
	if rerr != nil || r == nil {
		return
	}
	b, berr := r.Bytes()
	if berr != nil {
		return
	}
	nd.Cover("hashed")
	d := r.AsDestination()
	h, herr := d.Hash()
	nd.Assert(herr == nil && h == nd.Hash(b), "constructed/ri/hash-of-serialisation")
}

// failingReader delivers its data once and then fails.
type failingReader struct {
	data []byte
	done bool
}

func (f *failingReader) Read(p []byte) (int, error) {
	if !f.done {
		f.done = true
		return copy(p, f.data), nil
	}
	return 0, errors.New("read failed")
}

// H_C07_AfterFailedHashReader: the hash helpers keep no state between calls: after a data.HashReader call that failed
// half way (some bytes delivered, then a read error), HashData and RouterInfo.IdentHash still return the hash of exactly
// their own input.
//
//verif:props C07
//verif:witness hashed
func H_C07_AfterFailedHashReader() {
	_, rerr := data.HashReader(&failingReader{data: nd.Bytes(nd.IntRange(1, 3))})
	nd.Assert(rerr != nil, "hashreader/read-error-is-reported")
	x := nd.Bytes(nd.IntRange(0, 4))
	h := data.HashData(x)
	nd.Assert(h == data.Hash(nd.Hash(x)), "hashdata/hash-of-own-input-after-failed-reader")
	in, _ := riShape{7, 4, 0, nil, 0, 0}.build()
	ri, _, err := router_info.ReadRouterInfo(in)
	if err != nil {
		return
	}
	nd.Cover("hashed")
	ih, ierr := ri.IdentHash()
	nd.Assert(ierr == nil && ih.Bytes() == nd.Hash(in[:391]), "identhash/hash-of-identity-after-failed-reader")
}
