package c

import (
	"bytes"
	"crypto/ed25519"
	"time"

	"verifh/nd"

	"github.com/go-i2p/common/certificate"
	"github.com/go-i2p/common/data"
	"github.com/go-i2p/common/destination"
	"github.com/go-i2p/common/encrypted_leaseset"
	"github.com/go-i2p/common/key_certificate"
	"github.com/go-i2p/common/keys_and_cert"
	"github.com/go-i2p/common/lease"
	"github.com/go-i2p/common/lease_set"
	"github.com/go-i2p/common/lease_set2"
	"github.com/go-i2p/common/offline_signature"
	"github.com/go-i2p/common/router_address"
	"github.com/go-i2p/common/router_identity"
	"github.com/go-i2p/common/router_info"
	"github.com/go-i2p/common/signature"
	"github.com/go-i2p/crypto/curve25519"
	i2ped "github.com/go-i2p/crypto/ed25519"
	elgamal "github.com/go-i2p/crypto/elg"
	"github.com/go-i2p/crypto/types"
)

// cleanRoundTrip asserts the second half of C14 for a validated value: serialises without error (ser),
// parses back without error and with an empty remainder (reparse) to a value with the same serialisation.
func cleanRoundTrip(tag string, ser []byte, serErr error, reparse func([]byte) ([]byte, int, bool)) {
	nd.Assert(serErr == nil, tag+"/validated-value-serialises")
	if serErr != nil {
		return
	}
	out, rem, ok := reparse(ser)
	nd.Assert(ok, tag+"/serialisation-parses-back")
	if ok {
		nd.Assert(rem == 0, tag+"/parses-back-with-empty-remainder")
		nd.Assert(bytes.Equal(out, ser), tag+"/parses-back-to-same-serialisation")
	}
	nd.Cover("roundtrip")
}

// H_C14_Small: Signature, Certificate, OfflineSignature, MappingValues: constructor ok => validator ok => clean round trip; documented structural defects are rejected by the constructor.
//
//verif:props C14
//verif:witness roundtrip rejected
//verif:fanout 600
func H_C14_Small() {
	switch nd.IntRange(0, 3) {
	case 0:
		t := nd.Int()
		_, ss, known := specSigning(t)
		n := 8
		if known {
			n = ss + nd.IntRange(-1, 1)
		}
		s, err := signature.NewSignatureFromBytes(nd.Bytes(n), t)
		if !(known && n == ss) {
			nd.Assert(err != nil, "sig/constructor-rejects-length-or-type-defect")
		}
		if err != nil {
			nd.Cover("rejected")
			return
		}
		nd.Assert(s.Validate() == nil && s.IsValid(), "sig/constructed-validates")
		cleanRoundTrip("sig", s.Bytes(), nil, func(b []byte) ([]byte, int, bool) {
			v, rem, e := signature.ReadSignature(b, t)
			return v.Bytes(), len(rem), e == nil
		})
	case 1:
		t := nd.Byte()
		lens := []int{0, 1, 4, 39, 40, 41, 72, 73}
		p := nd.Bytes(lens[nd.IntRange(0, len(lens)-1)])
		c, err := certificate.NewCertificateWithType(t, p)
		wantOK := t <= 5 && !(t == 0 && len(p) > 0) && !(t == 2 && len(p) > 0) && !(t == 3 && len(p) != 40 && len(p) != 72)
		if !wantOK {
			nd.Assert(err != nil, "cert/constructor-rejects-documented-defects")
		}
		if err != nil {
			nd.Cover("rejected")
			return
		}
		nd.Assert(c.IsValid(), "cert/constructed-validates")
		cleanRoundTrip("cert", c.Bytes(), nil, func(b []byte) ([]byte, int, bool) {
			v, rem, e := certificate.ReadCertificate(b)
			if e != nil {
				return nil, 0, false
			}
			return v.Bytes(), len(rem), true
		})
	case 2:
		tts := []int{7, 1, 0, 3}
		dts := []int{7, 11, 1, 0}
		tt, dt := tts[nd.IntRange(0, len(tts)-1)], dts[nd.IntRange(0, len(dts)-1)]
		tp, _ := sigLens(tt)
		_, ds := sigLens(dt)
		dk, dsg := nd.IntRange(-1, 1), nd.IntRange(-1, 1)
		exp := nd.Uint32()
		o, err := offline_signature.NewOfflineSignature(exp, uint16(tt), nd.Bytes(tp+dk), nd.Bytes(ds+dsg), uint16(dt))
		if dk != 0 || dsg != 0 {
			nd.Assert(err != nil, "offline/constructor-rejects-key-or-signature-length-mismatch")
		}
		if err != nil {
			nd.Cover("rejected")
			return
		}
		if exp == 0 {
			// own label: the constructor/validator disagreement on a zero expiration is a recorded finding
			nd.Assert(o.ValidateStructure() == nil, "offline/zero-expires-accepted-by-constructor-but-rejected-by-ValidateStructure")
		} else {
			nd.Assert(o.ValidateStructure() == nil, "offline/constructed-validates-structurally")
		}
		if o.ValidateStructure() != nil {
			return
		}
		cleanRoundTrip("offline", o.Bytes(), nil, func(b []byte) ([]byte, int, bool) {
			v, rem, e := offline_signature.ReadOfflineSignature(b, uint16(dt))
			return v.Bytes(), len(rem), e == nil
		})
	case 3:
		mv := data.MappingValues{}
		lens := []int{0, 1, 255, 256}
		k, v := nd.String(lens[nd.IntRange(0, 3)]), nd.String(lens[nd.IntRange(0, 3)])
		mv2, err := mv.Add(k, v)
		if !(len(k) >= 1 && len(k) <= 255 && len(v) <= 255) {
			nd.Assert(err != nil, "mappingvalues/add-rejects-beyond-limits")
		}
		if err != nil {
			nd.Cover("rejected")
			return
		}
		nd.Assert(mv2.Validate() == nil && mv2.IsValid(), "mappingvalues/added-validates")
		mp, merr := data.ValuesToMapping(mv2)
		nd.Assert(merr == nil && mp != nil && mp.Validate() == nil, "mapping/from-values-validates")
		if merr != nil || mp == nil {
			return
		}
		cleanRoundTrip("mapping", mp.Data(), nil, func(b []byte) ([]byte, int, bool) {
			m, rem, errs := data.ReadMapping(b)
			return m.Data(), len(rem), len(errs) == 0
		})
	}
}

func kacReparse(b []byte) ([]byte, int, bool) {
	k, rem, e := keys_and_cert.ReadKeysAndCert(b)
	if e != nil {
		return nil, 0, false
	}
	o, e2 := k.Bytes()
	return o, len(rem), e2 == nil
}

// H_C14_KeysAndCert: NewKeysAndCert / NewDestination / NewRouterIdentityFromKeysAndCert with key lengths size-1/size/size+1, padding length exact/+-1 and nil keys.
//
//verif:props C14
//verif:witness roundtrip rejected
func H_C14_KeysAndCert() {
	kinds := [][2]int{{7, 4}, {7, 0}, {11, 4}}
	kd := kinds[nd.IntRange(0, len(kinds)-1)]
	kc, kerr := key_certificate.NewKeyCertificateWithTypes(kd[0], kd[1])
	nd.Assume(kerr == nil)
	cs, _ := specCrypto(kd[1])
	dpk, dsk, dpad := nd.IntRange(-1, 1), nd.IntRange(-1, 1), nd.IntRange(-1, 1)
	var pub types.ReceivingPublicKey
	var spk types.SigningPublicKey
	nilPub, nilSpk := nd.Bool(), nd.Bool()
	if !nilPub {
		pub = curve25519.Curve25519PublicKey(nd.Bytes(cs + dpk))
	}
	if !nilSpk {
		spk = i2ped.Ed25519PublicKey(nd.Bytes(32 + dsk))
	}
	pad := nd.Bytes(384 - cs - 32 + dpad)
	k, err := keys_and_cert.NewKeysAndCert(kc, pub, pad, spk)
	defect := (!nilPub && dpk != 0) || (!nilSpk && dsk != 0) || dpad != 0
	if defect {
		nd.Assert(err != nil, "kac/constructor-rejects-size-defects")
	}
	if err != nil {
		nd.Cover("rejected")
		return
	}
	verr := k.Validate()
	if nilPub || nilSpk {
		// own label: nil keys pass the constructor but not Validate() (recorded finding)
		nd.Assert(verr == nil, "kac/nil-key-accepted-by-constructor-but-rejected-by-Validate")
	} else {
		nd.Assert(verr == nil, "kac/constructed-validates")
	}
	if verr != nil {
		return
	}
	ser, serr := k.Bytes()
	cleanRoundTrip("kac", ser, serr, kacReparse)
	if kd[0] == 7 {
		ri, rerr := router_identity.NewRouterIdentityFromKeysAndCert(k)
		nd.Assert(rerr == nil && ri.Validate() == nil, "ident/from-valid-kac-validates")
	}
	d, derr := destination.NewDestination(k)
	nd.Assert(derr == nil && d.Validate() == nil, "dest/from-valid-kac-validates")
}

// H_C14_RouterAddress: NewRouterAddress with transport string lengths 0,1,255,256 and small options.
//
//verif:props C14
//verif:witness roundtrip rejected
func H_C14_RouterAddress() {
	lens := []int{0, 1, 2, 255, 256}
	ts := nd.String(lens[nd.IntRange(0, len(lens)-1)])
	a, err := router_address.NewRouterAddress(nd.Byte(), nowZero(), ts, tinyOptions())
	if !(len(ts) >= 1 && len(ts) <= 255) {
		nd.Assert(err != nil, "ra/constructor-rejects-empty-or-overlong-transport")
	}
	if err != nil {
		nd.Cover("rejected")
		return
	}
	nd.Assert(a.Validate() == nil && a.IsValid(), "ra/constructed-validates")
	cleanRoundTrip("ra", a.Bytes(), nil, func(b []byte) ([]byte, int, bool) {
		v, rem, e := router_address.ReadRouterAddress(b)
		if e != nil {
			return nil, 0, false
		}
		return v.Bytes(), len(rem), true
	})
}

// H_C14_LeaseSet2: NewLeaseSet2 with flags fully symbolic, key counts 0,1,2,16,17, key length size-1/size/size+1, lease counts 0,1,16,17, with/without offline block.
//
//verif:props C14
//verif:witness roundtrip rejected
func H_C14_LeaseSet2() {
	_, pub := nd.Ed25519Key()
	dest, _, derr := destination.ReadDestination(identityBytesX(4, pub, []int{0, 3}[nd.IntRange(0, 1)]))
	nd.Assume(derr == nil)
	flags := nd.Uint16()
	nk := []int{0, 1, 2, 16, 17}[nd.IntRange(0, 4)]
	nl := []int{0, 1, 16, 17}[nd.IntRange(0, 3)]
	dlen := nd.IntRange(-1, 1)
	declMismatch := nd.Bool()
	var keys []lease_set2.EncryptionKey
	for i := 0; i < nk; i++ {
		kl := 32
		if i == 0 {
			kl += dlen
		}
		k := lease_set2.EncryptionKey{KeyType: 4, KeyLen: uint16(kl), KeyData: nd.Bytes(kl)}
		if i == 1 {
			// the second key has a type the library has no table entry for (accepted with any length)
			k.KeyType = []uint16{8, 0x00FF, 0xFF01}[nd.IntRange(0, 2)]
		}
		if i == 0 && declMismatch {
			k.KeyLen++
		}
		keys = append(keys, k)
	}
	var leases []lease.Lease2
	for i := 0; i < nl; i++ {
		var l lease.Lease2
		copy(l[:], nd.Bytes(40))
		leases = append(leases, l)
	}
	var off *offline_signature.OfflineSignature
	if nd.Bool() {
		tts := []int{7, 0, 2}
		tt := tts[nd.IntRange(0, len(tts)-1)]
		tp, _ := sigLens(tt)
		o, oerr := offline_signature.NewOfflineSignature(nd.Uint32(), uint16(tt), nd.Bytes(tp), nd.Bytes(64), 7)
		nd.Assume(oerr == nil)
		off = &o
	}
	ls, err := lease_set2.NewLeaseSet2(dest, nd.Uint32(), nd.Uint16(), flags, off, data.Mapping{}, keys, leases, nil)
	// the structural defects LeaseSet2.Validate documents
	defect := nk < 1 || nk > 16 || nl > 16 || (nk >= 1 && (dlen != 0 || declMismatch)) ||
		flags&0xFFF8 != 0 || ((flags&1 != 0) != (off != nil))
	if defect {
		nd.Assert(err != nil, "ls2/constructor-rejects-documented-defects")
	}
	if err != nil {
		nd.Cover("rejected")
		return
	}
	verr := ls.Validate()
	nd.Assert(verr == nil, "ls2/constructed-validates")
	if verr != nil {
		return
	}
	ser, serr := ls.Bytes()
	cleanRoundTrip("ls2", ser, serr, func(b []byte) ([]byte, int, bool) {
		v, rem, e := lease_set2.ReadLeaseSet2(b)
		if e != nil {
			return nil, 0, false
		}
		o, e2 := v.Bytes()
		return o, len(rem), e2 == nil
	})
}

// H_C14_EncryptedLeaseSet: NewEncryptedLeaseSet with key length +-1, inner length around the minimum, flags symbolic, expires 0.
//
//verif:props C14
//verif:witness roundtrip rejected
func H_C14_EncryptedLeaseSet() {
	priv, pub := nd.Ed25519Key()
	dk := nd.IntRange(-1, 1)
	sts := []int{11, 7, 8, 1, 0}
	st := sts[nd.IntRange(0, len(sts)-1)]
	kp, _ := sigLens(st)
	key := pub
	if kp != 32 {
		key = nd.Bytes(kp) // other key types: the constructor signs with the Ed25519 key it is given
	}
	if dk == -1 {
		key = key[:len(key)-1]
	} else if dk == 1 {
		key = append(append([]byte{}, key...), 0)
	}
	flags := nd.Uint16()
	exp := nd.Uint16()
	il := []int{0, 60, 61, 62}[nd.IntRange(0, 3)]
	var off *offline_signature.OfflineSignature
	if nd.Bool() {
		_, dsl := sigLens(st)
		o, oerr := offline_signature.NewOfflineSignature(nd.Uint32(), 7, nd.Bytes(32), nd.Bytes(dsl), uint16(st))
		nd.Assume(oerr == nil)
		off = &o
	}
	e, err := encrypted_leaseset.NewEncryptedLeaseSet(uint16(st), key, nd.Uint32(), exp, flags, off, nd.Bytes(il), ed25519.PrivateKey(priv))
	defect := dk != 0 || exp == 0 || flags&0xFFFC != 0 || ((flags&1 != 0) != (off != nil)) || il < 61
	if defect {
		nd.Assert(err != nil, "enc/constructor-rejects-documented-defects")
	}
	if err != nil {
		nd.Cover("rejected")
		return
	}
	nd.Assert(e.Validate() == nil && e.IsValid(), "enc/constructed-validates")
	ser, serr := e.Bytes()
	cleanRoundTrip("enc", ser, serr, func(b []byte) ([]byte, int, bool) {
		v, rem, e2 := encrypted_leaseset.ReadEncryptedLeaseSet(b)
		_ = st
		if e2 != nil {
			return nil, 0, false
		}
		o, e3 := v.Bytes()
		return o, len(rem), e3 == nil
	})
}

// H_C14_LeaseSet: NewLeaseSet with lease counts 0,1,16,17 and signing-key length mismatch.
//
//verif:props C14
//verif:witness roundtrip rejected
func H_C14_LeaseSet() {
	priv, pub := nd.Ed25519Key()
	// the destination's key certificate may carry excess payload (accepted by every constructor and parser)
	dest, _, derr := destination.ReadDestination(identityBytesX(0, pub, []int{0, 3}[nd.IntRange(0, 1)]))
	nd.Assume(derr == nil)
	encKey, kerr := dest.PublicKey()
	nd.Assume(kerr == nil)
	zeroKey := nd.Bool()
	if zeroKey {
		// an ElGamal "key" of value 0: outside the valid range, the wire parser rejects it -- so must the constructor
		encKey = elgamal.ElgPublicKey{}
	} else {
		ek := encKey.Bytes()
		nd.Assume(ek[0] == 0 && ek[255] >= 2)
	}
	dsk := nd.IntRange(-1, 1)
	var spk types.SigningPublicKey = i2ped.Ed25519PublicKey(nd.Bytes(32 + dsk))
	if dsk == 0 {
		spk, _ = dest.SigningPublicKey()
	}
	nl := []int{0, 1, 16, 17}[nd.IntRange(0, 3)]
	var leases []lease.Lease
	for i := 0; i < nl; i++ {
		var l lease.Lease
		copy(l[:], nd.Bytes(44))
		leases = append(leases, l)
	}
	sk := i2ped.Ed25519PrivateKey(priv)
	ls, err := lease_set.NewLeaseSet(dest, encKey, spk, leases, &sk)
	if nl > 16 || dsk != 0 {
		nd.Assert(err != nil, "ls/constructor-rejects-documented-defects")
	}
	_ = zeroKey
	if err != nil {
		nd.Cover("rejected")
		return
	}
	nd.Assert(ls.Validate() == nil && ls.IsValid(), "ls/constructed-validates")
	ser, serr := ls.Bytes()
	cleanRoundTrip("ls", ser, serr, func(b []byte) ([]byte, int, bool) {
		v, e := lease_set.ReadLeaseSet(b)
		if e != nil {
			return nil, 0, false
		}
		o, e2 := v.Bytes()
		return o, len(b) - len(o), e2 == nil
	})
}

// H_C14_RouterInfo: NewRouterInfo output validates and round-trips (0..1 addresses, small options).
//
//verif:props C14
//verif:witness roundtrip
func H_C14_RouterInfo() {
	priv, pub := nd.Ed25519Key()
	ident, _, err := router_identity.ReadRouterIdentity(identityBytesX(4, pub, []int{0, 3}[nd.IntRange(0, 1)]))
	nd.Assume(err == nil)
	var addrs []*router_address.RouterAddress
	na := nd.IntRange(0, 1)
	for i := 0; i < na; i++ {
		a, aerr := router_address.NewRouterAddress(nd.Byte(), nowZero(), nd.String(2), tinyOptions())
		nd.Assume(aerr == nil)
		addrs = append(addrs, a)
	}
	sk := i2ped.Ed25519PrivateKey(priv)
	ms := nd.Int64()
	nd.Assume(ms > 0)
	ri, rerr := router_info.NewRouterInfo(ident, time.UnixMilli(ms), addrs, tinyOptions(), &sk, 7)
	nd.Assume(rerr == nil && ri != nil)
	verr := ri.Validate()
	if na == 0 {
		// own label: the specification allows 0 addresses and the constructor accepts them, Validate() does not
		nd.Assert(verr == nil, "ri/zero-addresses-accepted-by-constructor-but-rejected-by-Validate")
	} else {
		nd.Assert(verr == nil, "ri/constructed-validates")
	}
	if verr != nil {
		return
	}
	ser, serr := ri.Bytes()
	cleanRoundTrip("ri", ser, serr, func(b []byte) ([]byte, int, bool) {
		v, rem, e := router_info.ReadRouterInfo(b)
		if e != nil {
			return nil, 0, false
		}
		o, e2 := v.Bytes()
		return o, len(rem), e2 == nil
	})
}

// H_C14_EncryptedLeaseSetBig: the 16-bit inner-length field: NewEncryptedLeaseSet with inner data of 65535 bytes builds a
// value that validates and round-trips; 65536 and 70000 bytes cannot be declared and have to be rejected by the
// constructor (content concrete, header fields symbolic).
//
//verif:props C14
//verif:witness roundtrip rejected
//verif:steps 400000000
//verif:loopcap 200000
func H_C14_EncryptedLeaseSetBig() {
	priv, pub := nd.Ed25519Key()
	n := []int{65535, 65536, 70000}[nd.IntRange(0, 2)]
	exp := nd.Uint16()
	nd.Assume(exp != 0)
	e, err := encrypted_leaseset.NewEncryptedLeaseSet(11, pub, nd.Uint32(), exp, 0, nil, make([]byte, n), ed25519.PrivateKey(priv))
	if n > 65535 {
		nd.Assert(err != nil, "encbig/constructor-rejects-inner-data-beyond-the-length-field")
	}
	if err != nil {
		nd.Cover("rejected")
		return
	}
	nd.Assert(e.Validate() == nil && e.IsValid(), "encbig/constructed-validates")
	ser, serr := e.Bytes()
	cleanRoundTrip("encbig", ser, serr, func(b []byte) ([]byte, int, bool) {
		v, rem, e2 := encrypted_leaseset.ReadEncryptedLeaseSet(b)
		if e2 != nil {
			return nil, 0, false
		}
		o, e3 := v.Bytes()
		return o, len(rem), e3 == nil
	})
}
