package c

import (
	"bytes"

	"verifh/nd"

	"github.com/go-i2p/common/certificate"
	"github.com/go-i2p/common/destination"
	"github.com/go-i2p/common/key_certificate"
	"github.com/go-i2p/common/keys_and_cert"
	"github.com/go-i2p/common/router_identity"
)

func clone(b []byte) []byte { return append([]byte(nil), b...) }

// H_C08_Cert: a parsed certificate does not change when the input buffer is overwritten.
//
//verif:props C08
//verif:policies tight runtime
//verif:witness accepted
func H_C08_Cert() {
	n := nd.IntRange(3, 9)
	in := nd.Bytes(n)
	c, _, err := certificate.ReadCertificate(in)
	if err != nil {
		return
	}
	nd.Cover("accepted")
	b1, r1, e1 := clone(c.Bytes()), clone(c.RawBytes()), clone(c.ExcessBytes())
	d1, _ := c.Data()
	d1 = clone(d1)
	t1, _ := c.Type()
	nd.Havoc(in)
	d2, _ := c.Data()
	t2, _ := c.Type()
	nd.Assert(bytes.Equal(b1, c.Bytes()), "cert/Bytes-stable")
	nd.Assert(bytes.Equal(r1, c.RawBytes()), "cert/RawBytes-stable")
	nd.Assert(bytes.Equal(e1, c.ExcessBytes()), "cert/ExcessBytes-stable")
	nd.Assert(bytes.Equal(d1, d2) && t1 == t2, "cert/Data-Type-stable")
}

// H_C08_KeyCert: a parsed key certificate does not change when the input buffer is overwritten.
//
//verif:props C08
//verif:policies tight runtime
//verif:witness accepted
func H_C08_KeyCert() {
	n := nd.IntRange(7, 11)
	in := nd.Bytes(n)
	kc, _, err := key_certificate.NewKeyCertificate(in)
	if err != nil {
		return
	}
	nd.Cover("accepted")
	b1 := clone(kc.Bytes())
	s1, c1 := kc.SigningPublicKeyType(), kc.PublicKeyType()
	nd.Havoc(in)
	nd.Assert(bytes.Equal(b1, kc.Bytes()), "keycert/Bytes-stable")
	nd.Assert(s1 == kc.SigningPublicKeyType() && c1 == kc.PublicKeyType(), "keycert/types-stable")
}

func kacObserve(k *keys_and_cert.KeysAndCert) (ser, pub, sig, pad []byte) {
	ser, _ = k.Bytes()
	ser = clone(ser)
	if k.ReceivingPublic != nil {
		pub = clone(k.ReceivingPublic.Bytes())
	}
	if k.SigningPublic != nil {
		sig = clone(k.SigningPublic.Bytes())
	}
	pad = clone(k.Padding)
	return
}

// H_C08_KeysAndCert: parsed keys-and-cert (all accepted type pairs) is unaffected by overwriting the input.
//
//verif:props C08
//verif:policies tight runtime
//verif:witness accepted
func H_C08_KeysAndCert() {
	in := kacInput()
	k, _, err := keys_and_cert.ReadKeysAndCert(in)
	if err != nil {
		return
	}
	nd.Cover("accepted")
	s1, p1, g1, d1 := kacObserve(k)
	nd.Havoc(in)
	s2, p2, g2, d2 := kacObserve(k)
	nd.Assert(bytes.Equal(s1, s2), "kac/Bytes-stable")
	nd.Assert(bytes.Equal(p1, p2), "kac/crypto-key-stable")
	nd.Assert(bytes.Equal(g1, g2), "kac/signing-key-stable")
	nd.Assert(bytes.Equal(d1, d2), "kac/padding-stable")
}

// H_C08_Destination: same for ReadDestination.
//
//verif:props C08
//verif:policies tight runtime
//verif:witness accepted
func H_C08_Destination() {
	in := kacInput()
	d, _, err := destination.ReadDestination(in)
	if err != nil {
		return
	}
	nd.Cover("accepted")
	s1, p1, g1, d1 := kacObserve(d.KeysAndCert)
	nd.Havoc(in)
	s2, p2, g2, d2 := kacObserve(d.KeysAndCert)
	nd.Assert(bytes.Equal(s1, s2), "dest/Bytes-stable")
	nd.Assert(bytes.Equal(p1, p2) && bytes.Equal(g1, g2) && bytes.Equal(d1, d2), "dest/parts-stable")
}

// H_C08_RouterIdentity: same for ReadRouterIdentity.
//
//verif:props C08
//verif:policies tight runtime
//verif:witness accepted
func H_C08_RouterIdentity() {
	in := kacInput()
	r, _, err := router_identity.ReadRouterIdentity(in)
	if err != nil {
		return
	}
	nd.Cover("accepted")
	s1, p1, g1, d1 := kacObserve(r.KeysAndCert)
	nd.Havoc(in)
	s2, p2, g2, d2 := kacObserve(r.KeysAndCert)
	nd.Assert(bytes.Equal(s1, s2), "ident/Bytes-stable")
	nd.Assert(bytes.Equal(p1, p2) && bytes.Equal(g1, g2) && bytes.Equal(d1, d2), "ident/parts-stable")
}
