package c

import (
	"bytes"

	"verifh/nd"

	"github.com/go-i2p/common/data"
	"github.com/go-i2p/common/key_certificate"
	"github.com/go-i2p/common/keys_and_cert"
	"github.com/go-i2p/common/lease"
	"github.com/go-i2p/common/lease_set2"
	"github.com/go-i2p/common/offline_signature"
	"github.com/go-i2p/common/signature"
)

// specSigning is the specification's table (I2P 0.9.67 common structures): code -> (public key, signature) length.
func specSigning(code int) (pub, sig int, ok bool) {
	switch code {
	case 0:
		return 128, 40, true
	case 1:
		return 64, 64, true
	case 2:
		return 96, 96, true
	case 3:
		return 132, 132, true
	case 4:
		return 256, 256, true
	case 5:
		return 384, 384, true
	case 6:
		return 512, 512, true
	case 7, 8, 11:
		return 32, 64, true
	}
	return 0, 0, false
}

func specCrypto(code int) (pub int, ok bool) {
	switch code {
	case 0:
		return 256, true
	case 1:
		return 64, true
	case 2:
		return 96, true
	case 3:
		return 132, true
	case 4, 5, 6, 7:
		return 32, true
	}
	return 0, false
}

// H_C10_SigningTables: every signing-size lookup agrees with the specification table for EVERY int code (one symbolic code covers the whole space).
//
//verif:props C10
//verif:witness known unknown
func H_C10_SigningTables() {
	code := nd.Int()
	pub, sig, ok := specSigning(code)
	if ok {
		nd.Cover("known")
	} else {
		nd.Cover("unknown")
	}
	a, ea := key_certificate.GetSignatureSize(code)
	nd.Assert((ea == nil) == ok, "GetSignatureSize/known")
	nd.Assert(ea != nil || a == sig, "GetSignatureSize/value")
	b, eb := key_certificate.GetSigningKeySize(code)
	nd.Assert((eb == nil) == ok, "GetSigningKeySize/known")
	nd.Assert(eb != nil || b == pub, "GetSigningKeySize/value")
	c, ec := signature.SignatureSize(code)
	nd.Assert((ec == nil) == ok, "signature.SignatureSize/known")
	nd.Assert(ec != nil || c == sig, "signature.SignatureSize/value")
	info, ei := key_certificate.GetKeySizes(code, 0)
	nd.Assert((ei == nil) == ok, "GetKeySizes/known")
	nd.Assert(ei != nil || (info.SignatureSize == sig && info.SigningPublicKeySize == pub && info.CryptoPublicKeySize == 256), "GetKeySizes/value")
	if code >= 0 && code <= 65535 {
		u := uint16(code)
		os := offline_signature.SignatureSize(u)
		nd.Assert((os != 0) == ok && os == sig, "offline.SignatureSize")
		op := offline_signature.SigningPublicKeySize(u)
		nd.Assert((op != 0) == ok && op == pub, "offline.SigningPublicKeySize")
		mp, mok := key_certificate.SignaturePublicKeySizes[u]
		nd.Assert(mok == ok && mp == pub, "SignaturePublicKeySizes")
		// through a key certificate with these type bytes
		kc := key_certificate.KeyCertificate{SpkType: []byte{byte(u >> 8), byte(u)}, CpkType: []byte{0, 0}}
		nd.Assert(kc.SignatureSize() == sig, "KeyCertificate.SignatureSize")
		nd.Assert(kc.SigningPublicKeySize() == pub, "KeyCertificate.SigningPublicKeySize")
	}
}

// H_C10_CryptoTables: every crypto-size lookup agrees with the specification table for every int code.
//
//verif:props C10
//verif:witness known unknown
func H_C10_CryptoTables() {
	code := nd.Int()
	pub, ok := specCrypto(code)
	if ok {
		nd.Cover("known")
	} else {
		nd.Cover("unknown")
	}
	a, ea := key_certificate.GetCryptoKeySize(code)
	nd.Assert((ea == nil) == ok, "GetCryptoKeySize/known")
	nd.Assert(ea != nil || a == pub, "GetCryptoKeySize/value")
	info, ei := key_certificate.GetKeySizes(7, code)
	nd.Assert((ei == nil) == ok, "GetKeySizes/crypto-known")
	nd.Assert(ei != nil || info.CryptoPublicKeySize == pub, "GetKeySizes/crypto-value")
	if code >= 0 && code <= 65535 {
		u := uint16(code)
		mp, mok := key_certificate.CryptoPublicKeySizes[u]
		nd.Assert(mok == ok && mp == pub, "CryptoPublicKeySizes")
		kc := key_certificate.KeyCertificate{SpkType: []byte{0, 7}, CpkType: []byte{byte(u >> 8), byte(u)}}
		nd.Assert(kc.CryptoSize() == pub, "KeyCertificate.CryptoSize")
		cs, cerr := kc.CryptoPublicKeySize()
		nd.Assert((cerr == nil) == ok && cs == pub, "KeyCertificate.CryptoPublicKeySize")
	}
}

// H_C10_Layout: for every accepted (signing, crypto) pair of a parsed KeysAndCert: crypto key at the start of the 384-byte block, signing key at its end, padding exactly between; declared sizes equal actual key lengths.
//
//verif:props C10 C02
//verif:witness accepted
func H_C10_Layout() {
	in := kacInput()
	k, _, err := keys_and_cert.ReadKeysAndCert(in)
	if err != nil {
		return
	}
	nd.Cover("accepted")
	sigT, cryT := 0, 0
	if in[384] == 5 {
		sigT, cryT = int(be(in[387:389])), int(be(in[389:391]))
	}
	ss, _, sok := specSigning(sigT)
	cs, cok := specCrypto(cryT)
	nd.Assert(sok && cok, "layout/accepted-types-known")
	pk, perr := k.PublicKey()
	sk, serr := k.SigningPublicKey()
	nd.Assert(perr == nil && serr == nil, "layout/keys-available")
	if perr != nil || serr != nil {
		return
	}
	nd.Assert(pk.Len() == cs && len(pk.Bytes()) == cs, "layout/crypto-len")
	nd.Assert(sk.Len() == ss && len(sk.Bytes()) == ss, "layout/signing-len")
	nd.Assert(bytes.Equal(pk.Bytes(), in[0:cs]), "layout/crypto-at-start")
	nd.Assert(bytes.Equal(sk.Bytes(), in[384-ss:384]), "layout/signing-at-end")
	nd.Assert(bytes.Equal(k.Padding, in[cs:384-ss]), "layout/padding-between")
	nd.Assert(k.KeyCertificate.CryptoSize() == cs && k.KeyCertificate.SigningPublicKeySize() == ss, "layout/declared-sizes")
}

// H_C10_LayoutConstructor: the constructor side of the key block: NewKeysAndCert(keys, padding).Bytes() puts the crypto key at the start of the 384-byte block, the signing key at its end and the padding exactly between, for the key types the library can construct (X25519 / ElGamal crypto; Ed25519, DSA, P256, P384 signing).
//
//verif:props C10 C02
//verif:witness built
func H_C10_LayoutConstructor() {
	sigs := []int{7, 0, 1, 2, 11}
	crys := []int{4, 0}
	st, ct := sigs[nd.IntRange(0, len(sigs)-1)], crys[nd.IntRange(0, 1)]
	kc, err := key_certificate.NewKeyCertificateWithTypes(st, ct)
	nd.Assume(err == nil)
	ss, _, _ := specSigning(st)
	cs, _ := specCrypto(ct)
	cb, sb := nd.Bytes(cs), nd.Bytes(ss)
	pk, perr := kc.ConstructPublicKey(append(append([]byte{}, cb...), make([]byte, 256-cs)...))
	nd.Assume(perr == nil)
	// ConstructSigningPublicKey takes exactly the key bytes for Ed25519-family keys and reads the END of a
	// 128-byte field for the others
	var skIn []byte
	if ss == 32 {
		skIn = sb
	} else {
		skIn = append(make([]byte, 128-ss), sb...)
	}
	sk, serr := kc.ConstructSigningPublicKey(skIn)
	nd.Assume(serr == nil)
	pad := nd.Bytes(384 - cs - ss)
	k, kerr := keys_and_cert.NewKeysAndCert(kc, pk, pad, sk)
	nd.Assert(kerr == nil, "layoutctor/constructed")
	if kerr != nil {
		return
	}
	out, berr := k.Bytes()
	nd.Assert(berr == nil && len(out) == 391, "layoutctor/serialises")
	if berr != nil || len(out) != 391 {
		return
	}
	nd.Cover("built")
	nd.Assert(bytes.Equal(out[0:cs], cb), "layoutctor/crypto-key-at-start")
	nd.Assert(bytes.Equal(out[384-ss:384], sb), "layoutctor/signing-key-at-end")
	nd.Assert(bytes.Equal(out[cs:384-ss], pad), "layoutctor/padding-between")
	nd.Assert(bytes.Equal(out[384:391], []byte{5, 0, 4, byte(st >> 8), byte(st), byte(ct >> 8), byte(ct)}), "layoutctor/key-certificate")
	nd.Assert(pk.Len() == cs && sk.Len() == ss, "layoutctor/declared-sizes-equal-key-lengths")
}

// H_C10_ValidatorsAgree: the structure validators use the same sizes as the tables: a parsed LeaseSet2 whose single
// encryption key declares a KNOWN crypto type t and length L (L = size-1, size, size+1, 2*size) passes Validate() exactly
// when L is the table size of t; NewLeaseSet2 accepts the same (type, length) pairs and no others.
//
//verif:props C10 C14
//verif:witness valid invalid
func H_C10_ValidatorsAgree() {
	t := nd.IntRange(0, 7)
	size, _ := specCrypto(t)
	L := []int{size - 1, size, size + 1, 2 * size}[nd.IntRange(0, 3)]
	in, _ := ls2Shape{7, 4, 0, -1, 0, []int{L}, 1, 0}.build()
	pin(in, 402, 0, byte(t))
	pin(in, 397, 0, 0) // no flags (reserved bits are a separate Validate() rule)
	ls, _, err := lease_set2.ReadLeaseSet2(in)
	if err != nil {
		return
	}
	verr := ls.Validate()
	if L == size {
		nd.Cover("valid")
		nd.Assert(verr == nil, "validators/ls2/table-size-key-validates")
	} else {
		nd.Cover("invalid")
		nd.Assert(verr != nil, "validators/ls2/key-length-not-the-table-size-is-rejected")
	}
	dest := ls.Destination()
	var l lease.Lease2
	copy(l[:], nd.Bytes(40))
	_, cerr := lease_set2.NewLeaseSet2(dest, nd.Uint32(), nd.Uint16(), 0, nil, data.Mapping{},
		[]lease_set2.EncryptionKey{{KeyType: uint16(t), KeyLen: uint16(L), KeyData: nd.Bytes(L)}}, []lease.Lease2{l}, nil)
	nd.Assert((cerr == nil) == (L == size), "validators/ls2/constructor-accepts-iff-table-size")
}
