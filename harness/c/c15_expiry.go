package c

import (
	"time"

	"verifh/nd"

	"github.com/go-i2p/common/data"
	"github.com/go-i2p/common/encrypted_leaseset"
	"github.com/go-i2p/common/lease"
	"github.com/go-i2p/common/lease_set"
	"github.com/go-i2p/common/lease_set2"
	"github.com/go-i2p/common/meta_leaseset"
	"github.com/go-i2p/common/offline_signature"
)

func putU32(b []byte, v uint32) {
	b[0], b[1], b[2], b[3] = byte(v>>24), byte(v>>16), byte(v>>8), byte(v)
}

// H_C15_HeaderTimes: PublishedTime/ExpirationTime of LeaseSet2, MetaLeaseSet and EncryptedLeaseSet equal published and published+expires exactly, for all 2^32 x 2^16 field values (through the real time package).
//
//verif:props C15
//verif:witness accepted
//verif:solver cvc5
func H_C15_HeaderTimes() {
	switch nd.IntRange(0, 2) {
	case 0:
		in, _ := ls2Shape{7, 4, 0, -1, 0, []int{32}, 1, 0}.build()
		v, _, err := lease_set2.ReadLeaseSet2(in)
		if err != nil {
			return
		}
		nd.Cover("accepted")
		pub, exp := be(in[391:395]), be(in[395:397])
		nd.Assert(v.Published() == uint32(pub) && v.Expires() == uint16(exp), "ls2/raw-fields")
		nd.Assert(v.PublishedTime().Unix() == int64(pub), "ls2/published-time")
		nd.Assert(v.ExpirationTime().Unix() == int64(pub+exp), "ls2/expiration-time")
	case 1:
		in, _ := metaShape{7, 4, 0, -1, 0, []int{0}, 0}.build()
		v, _, err := meta_leaseset.ReadMetaLeaseSet(in)
		if err != nil {
			return
		}
		nd.Cover("accepted")
		pub, exp := be(in[391:395]), be(in[395:397])
		nd.Assert(v.PublishedTime().Unix() == int64(pub), "meta/published-time")
		nd.Assert(v.ExpirationTime().Unix() == int64(pub+exp), "meta/expiration-time")
		e, gerr := v.GetEntry(0)
		nd.Assert(gerr == nil, "meta/entry")
		if gerr == nil {
			ee := be(in[402+33 : 402+37])
			nd.Assert(e.Expires() == uint32(ee) && e.ExpiresTime().Unix() == int64(ee), "meta/entry-expires-time")
		}
	case 2:
		in, _ := encShape{11, -1, 61, 0}.build()
		v, _, err := encrypted_leaseset.ReadEncryptedLeaseSet(in)
		if err != nil {
			return
		}
		nd.Cover("accepted")
		pub, exp := be(in[34:38]), be(in[38:40])
		nd.Assert(v.PublishedTime().Unix() == int64(pub), "enc/published-time")
		nd.Assert(v.ExpirationTime().Unix() == int64(pub+exp), "enc/expiration-time")
	}
}

// H_C15_Leases: Lease/Lease2 end dates, NewLease/NewLease2 over the whole range of instants, OfflineSignature expiry.
//
//verif:props C15
//verif:solver cvc5
func H_C15_Leases() {
	switch nd.IntRange(0, 4) {
	case 0:
		var l lease.Lease2
		copy(l[:], nd.Bytes(40))
		e := be(l[36:40])
		nd.Assert(l.EndDate() == uint32(e), "lease2/enddate")
		nd.Assert(l.Time().Unix() == int64(e), "lease2/time")
		d := l.Date()
		nd.Assert(be(d[:]) == e*1000, "lease2/date-millis")
	case 1:
		var l lease.Lease
		copy(l[:], nd.Bytes(44))
		ms := be(l[36:44])
		nd.Assume(ms < 1<<63)
		nd.Assert(l.Time().UnixMilli() == int64(ms), "lease/time")
		d := l.Date()
		nd.Assert(be(d[:]) == ms, "lease/date")
	case 2:
		s, ns := nd.Int64(), nd.Int64()
		nd.Assume(ns >= 0 && ns < 1000000000)
		nd.Assume(s > -(1<<55) && s < 1<<55)
		var gw data.Hash
		l, err := lease.NewLease2(gw, nd.Uint32(), time.Unix(s, ns))
		inRange := s >= 0 && s <= 1<<32-1
		nd.Assert((err == nil) == inRange, "newlease2/rejects-iff-out-of-range")
		if err == nil && l != nil {
			nd.Assert(l.EndDate() == uint32(s) && int64(l.EndDate()) == s, "newlease2/stores-exact-seconds")
		}
	case 3:
		ms := nd.Int64()
		nd.Assume(ms >= 0)
		var gw data.Hash
		l, err := lease.NewLease(gw, nd.Uint32(), time.UnixMilli(ms))
		nd.Assert(err == nil && l != nil, "newlease/accepted")
		if err == nil && l != nil {
			nd.Assert(be(l[36:44]) == uint64(ms), "newlease/stores-exact-millis")
		}
	case 4:
		in := nd.Bytes(6 + 32 + 64)
		pin(in, 4, 0, 7)
		o, _, err := offline_signature.ReadOfflineSignature(in, 7)
		if err != nil {
			return
		}
		e := be(in[0:4])
		nd.Assert(o.Expires() == uint32(e), "offline/expires")
		nd.Assert(o.ExpiresTime().Unix() == int64(e), "offline/expires-time")
		d, derr := o.ExpiresDate()
		nd.Assert(derr == nil && d != nil, "offline/expires-date-ok")
		if derr == nil && d != nil {
			nd.Assert(be(d[:]) == e*1000, "offline/expires-date-millis")
		}
	}
}

// H_C15_NewestOldest: NewestExpiration / OldestExpiration of a LeaseSet with 1..2 (T: 4) leases and arbitrary dates below 2^63: the result is a member and bounds all the others.
//
//verif:props C15
//verif:witness ok
//verif:solver cvc5
func H_C15_NewestOldest() {
	max := 2
	if nd.Thorough() {
		max = 4
	}
	n := nd.IntRange(1, max)
	in, _ := lsShape{7, 0, 0, n, 0}.build()
	nd.Assume(in[391] == 0 && in[391+255] >= 2) // ElGamal key inside the certainly-valid region
	base := 391 + 256 + 32 + 1
	var ds []uint64
	for i := 0; i < n; i++ {
		d := be(in[base+44*i+36 : base+44*i+44])
		nd.Assume(d < 1<<63)
		ds = append(ds, d)
	}
	ls, err := lease_set.ReadLeaseSet(in)
	if err != nil {
		return
	}
	nd.Cover("ok")
	nw, nerr := ls.NewestExpiration()
	od, oerr := ls.OldestExpiration()
	nd.Assert(nerr == nil && oerr == nil, "ls/newest-oldest-ok")
	nv, ov := be(nw[:]), be(od[:])
	mem1, mem2 := false, false
	for _, d := range ds {
		mem1 = nd.Or(mem1, d == nv)
		mem2 = nd.Or(mem2, d == ov)
		nd.Assert(d <= nv, "ls/newest-bounds-all")
		nd.Assert(d >= ov, "ls/oldest-bounds-all")
	}
	nd.Assert(mem1, "ls/newest-is-member")
	nd.Assert(mem2, "ls/oldest-is-member")
}

// H_C15_IsExpired: a structure whose expiry lies more than an hour in the past is expired, more than an hour in the future (up to the end of the 32-bit range) is not (clock symbolic: any instant 2001..2096).
//
//verif:props C15
//verif:witness past future
//verif:solver cvc5
func H_C15_IsExpired() {
	now := nd.NowUnix()
	// the expiry is ANY instant of the 32-bit seconds range that is more than the clock's drift bound (one hour) away
	// from now -- it may lie more than 2^31 seconds ahead; large enough for published = expiry - expires to be positive
	expiry := nd.Int64()
	nd.Assume(expiry >= 70000 && expiry < 1<<32)
	past := expiry < now
	if past {
		nd.Assume(now-expiry >= 3700)
		nd.Cover("past")
	} else {
		nd.Assume(expiry-now >= 3700)
		nd.Cover("future")
	}
	switch nd.IntRange(0, 5) {
	case 0:
		in, _ := ls2Shape{7, 4, 0, -1, 0, []int{32}, 1, 0}.build()
		exp := int64(be(in[395:397]))
		putU32(in[391:395], uint32(expiry-exp))
		v, _, err := lease_set2.ReadLeaseSet2(in)
		nd.Assume(err == nil)
		nd.Assert(v.IsExpired() == past, "ls2/isexpired")
	case 1:
		in, _ := metaShape{7, 4, 0, -1, 0, []int{0}, 0}.build()
		exp := int64(be(in[395:397]))
		putU32(in[391:395], uint32(expiry-exp))
		putU32(in[402+33:402+37], uint32(expiry))
		v, _, err := meta_leaseset.ReadMetaLeaseSet(in)
		nd.Assume(err == nil)
		nd.Assert(v.IsExpired() == past, "meta/isexpired")
		e, gerr := v.GetEntry(0)
		nd.Assume(gerr == nil)
		nd.Assert(e.IsExpired() == past, "meta/entry-isexpired")
	case 2:
		in, _ := encShape{11, -1, 61, 0}.build()
		exp := int64(be(in[38:40]))
		putU32(in[34:38], uint32(expiry-exp))
		v, _, err := encrypted_leaseset.ReadEncryptedLeaseSet(in)
		nd.Assume(err == nil)
		nd.Assert(v.IsExpired() == past, "enc/isexpired")
	case 3:
		var l lease.Lease2
		copy(l[:], nd.Bytes(40))
		putU32(l[36:40], uint32(expiry))
		nd.Assert(l.IsExpired() == past, "lease2/isexpired")
	case 4:
		var l lease.Lease
		copy(l[:], nd.Bytes(44))
		ms := uint64(expiry) * 1000
		for i := 0; i < 8; i++ {
			l[36+i] = byte(ms >> uint(56-8*i))
		}
		nd.Assert(l.IsExpired() == past, "lease/isexpired")
	case 5:
		in := nd.Bytes(6 + 32 + 64)
		pin(in, 4, 0, 7)
		putU32(in[0:4], uint32(expiry))
		o, _, err := offline_signature.ReadOfflineSignature(in, 7)
		nd.Assume(err == nil)
		nd.Assert(o.IsExpired() == past, "offline/isexpired")
	}
}
