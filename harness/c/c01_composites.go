package c

import (
	"verifh/nd"

	"github.com/go-i2p/common/encrypted_leaseset"
	"github.com/go-i2p/common/lease"
	"github.com/go-i2p/common/lease_set"
	"github.com/go-i2p/common/meta_leaseset"
	"github.com/go-i2p/common/offline_signature"
	"github.com/go-i2p/common/router_address"
	"github.com/go-i2p/common/router_info"
	"github.com/go-i2p/common/signature"
)

// H_C01_MetaLeaseSet: ReadMetaLeaseSet -> Bytes on the MetaLeaseSet shape grid.
//
//verif:props C01 C03 C04
//verif:witness accepted
func H_C01_MetaLeaseSet() {
	shapes := metaShapes()
	i := nd.IntRange(0, len(shapes)-1)
	expShape("accepted", i)
	in, total := shapes[i].build()
	m, rem, err := meta_leaseset.ReadMetaLeaseSet(in)
	if err != nil {
		return
	}
	nd.Cover("accepted")
	covShape("accepted", i)
	out, berr := m.Bytes()
	nd.Assert(berr == nil, "meta/bytes-ok")
	if berr != nil {
		return
	}
	c := checkRT("meta", in, rem, out)
	nd.Assert(c == total, "meta/extent")
}

// H_C01_EncryptedLeaseSet: ReadEncryptedLeaseSet -> Bytes on the shape grid.
//
//verif:props C01 C03 C04
//verif:witness accepted
func H_C01_EncryptedLeaseSet() {
	shapes := encShapes()
	i := nd.IntRange(0, len(shapes)-1)
	expShape("accepted", i)
	in, total := shapes[i].build()
	e, rem, err := encrypted_leaseset.ReadEncryptedLeaseSet(in)
	if err != nil {
		return
	}
	nd.Cover("accepted")
	covShape("accepted", i)
	out, berr := e.Bytes()
	nd.Assert(berr == nil, "enc/bytes-ok")
	if berr != nil {
		return
	}
	c := checkRT("enc", in, rem, out)
	nd.Assert(c == total, "enc/extent")
}

// H_C01_LeaseSet: ReadLeaseSet -> Bytes on the legacy LeaseSet shape grid (no remainder is returned; the consumed extent is len(Bytes())).
//
//verif:props C01 C04
//verif:witness accepted
func H_C01_LeaseSet() {
	shapes := lsShapes()
	i := nd.IntRange(0, len(shapes)-1)
	expShape("accepted", i)
	in, total := shapes[i].build()
	ls, err := lease_set.ReadLeaseSet(in)
	if err != nil {
		return
	}
	nd.Cover("accepted")
	covShape("accepted", i)
	out, berr := ls.Bytes()
	nd.Assert(berr == nil, "ls/bytes-ok")
	if berr != nil {
		return
	}
	nd.Assert(len(out) == total, "ls/extent")
	if len(out) <= len(in) {
		checkRT("ls", in, in[len(out):], out)
	}
}

// H_C01_RouterInfo: ReadRouterInfo -> Bytes on the RouterInfo shape grid (address and options mappings are free regions).
//
//verif:props C01 C03 C04
//verif:witness accepted
func H_C01_RouterInfo() {
	shapes := riShapes()
	i := nd.IntRange(0, len(shapes)-1)
	expShape("accepted", i)
	in, total := shapes[i].build()
	ri, rem, err := router_info.ReadRouterInfo(in)
	if err != nil {
		return
	}
	nd.Cover("accepted")
	covShape("accepted", i)
	out, berr := ri.Bytes()
	nd.Assert(berr == nil, "ri/bytes-ok")
	if berr != nil {
		return
	}
	c := checkRT("ri", in, rem, out)
	nd.Assert(c == total, "ri/extent")
}

// H_C01_RouterAddress: ReadRouterAddress -> Bytes, free-form N in 12..Nmax (transport string length and options mapping free).
//
//verif:props C01 C03 C04
//verif:witness accepted
func H_C01_RouterAddress() {
	max := 18
	if nd.Thorough() {
		max = 22
	}
	n := nd.IntRange(0, max)
	in := nd.Bytes(n)
	ra, rem, err := router_address.ReadRouterAddress(in)
	if err != nil {
		return
	}
	nd.Cover("accepted")
	out := ra.Bytes()
	c := checkRT("ra", in, rem, out)
	tl := int(in[9])
	nd.Assert(c == 9+1+tl+2+int(be(in[10+tl:12+tl])), "ra/extent")
}

// H_C01_Leases: ReadLease / ReadLease2 and pointer variants, N = size-1..size+2.
//
//verif:props C01 C03 C19 C04
//verif:witness accepted
func H_C01_Leases() {
	if nd.Bool() {
		n := nd.IntRange(43, 46)
		in := nd.Bytes(n)
		l, rem, err := lease.ReadLease(in)
		p, prem, perr := lease.NewLeaseFromBytes(in)
		nd.Assert((err == nil) == (n >= 44), "lease/accept-iff-44")
		nd.Assert((err == nil) == (perr == nil), "lease/ptr-agrees-err")
		if err != nil {
			return
		}
		nd.Cover("accepted")
		c := checkRT("lease", in, rem, l.Bytes())
		nd.Assert(c == 44, "lease/extent")
		nd.Assert(p != nil && *p == l && len(prem) == len(rem), "lease/ptr-agrees")
		return
	}
	n := nd.IntRange(39, 42)
	in := nd.Bytes(n)
	l, rem, err := lease.ReadLease2(in)
	p, prem, perr := lease.NewLease2FromBytes(in)
	nd.Assert((err == nil) == (n >= 40), "lease2/accept-iff-40")
	nd.Assert((err == nil) == (perr == nil), "lease2/ptr-agrees-err")
	if err != nil {
		return
	}
	nd.Cover("accepted")
	c := checkRT("lease2", in, rem, l.Bytes())
	nd.Assert(c == 40, "lease2/extent")
	nd.Assert(p != nil && *p == l && len(prem) == len(rem), "lease2/ptr-agrees")
}

// H_C01_Signature: ReadSignature with a free int type code; N = class size - 1 .. + 2 for every size class.
//
//verif:props C01 C03 C04
//verif:witness accepted
//verif:fanout 600
func H_C01_Signature() {
	t := nd.Int()
	_, ss, ok := specSigning(t)
	if !ok {
		in := nd.Bytes(8)
		_, _, err := signature.ReadSignature(in, t)
		nd.Assert(err != nil, "sig/unknown-type-rejected")
		return
	}
	n := ss + nd.IntRange(-1, 2)
	in := nd.Bytes(n)
	s, rem, err := signature.ReadSignature(in, t)
	nd.Assert((err == nil) == (n >= ss), "sig/accept-iff-enough")
	if err != nil {
		return
	}
	nd.Cover("accepted")
	c := checkRT("sig", in, rem, s.Bytes())
	nd.Assert(c == ss, "sig/extent")
	nd.Assert(s.Type() == t && s.Len() == ss, "sig/type-len")
}

// H_C01_OfflineSignature: ReadOfflineSignature with free transient and destination type codes.
//
//verif:props C01 C03 C04
//verif:witness accepted
func H_C01_OfflineSignature() {
	types := []int{0, 1, 2, 3, 4, 7, 8, 11}
	tt := types[nd.IntRange(0, len(types)-1)]
	dt := types[nd.IntRange(0, len(types)-1)]
	tp, _ := sigLens(tt)
	_, ds := sigLens(dt)
	total := 6 + tp + ds
	n := total + nd.IntRange(-1, 2)
	in := nd.Bytes(n)
	pin(in, 4, byte(tt>>8), byte(tt))
	o, rem, err := offline_signature.ReadOfflineSignature(in, uint16(dt))
	nd.Assert((err == nil) == (n >= total), "offline/accept-iff-enough")
	if err != nil {
		return
	}
	nd.Cover("accepted")
	c := checkRT("offline", in, rem, o.Bytes())
	nd.Assert(c == total, "offline/extent")
}

// H_C01_RouterInfoPeers: a RouterInfo whose peer_size byte is 1, followed by 32 bytes that begin 00 00 (so that they
// read as an empty options mapping for a parser that ignores peer_size and as a peer hash for one that honours it),
// another 00 00, and enough bytes for a signature either way: whatever the parser consumes, Bytes() reproduces it.
//
//verif:props C01 C03 C04
//verif:witness accepted
func H_C01_RouterInfoPeers() {
	in := nd.Bytes(391 + 8 + 1 + 1 + 32 + 2 + 64 + 8)
	pinDest(in, 0, 7, 4, 0)
	pin(in, 399, 0)    // no addresses
	pin(in, 400, 1)    // peer_size
	pin(in, 401, 0, 0) // first bytes of the would-be hash
	pin(in, 433, 0, 0) // options after the would-be hash
	ri, rem, err := router_info.ReadRouterInfo(in)
	if err != nil {
		return
	}
	nd.Cover("accepted")
	out, berr := ri.Bytes()
	nd.Assert(berr == nil, "ripeers/bytes-ok")
	if berr != nil {
		return
	}
	checkRT("ripeers", in, rem, out)
}
