package c

import (
	"bytes"
	"errors"

	"verifh/nd"

	"github.com/go-i2p/common/base32"
	"github.com/go-i2p/common/base64"
)

const alpha32 = "abcdefghijklmnopqrstuvwxyz234567"
const alpha64 = "ABCDEFGHIJKLMNOPQRSTUVWXYZabcdefghijklmnopqrstuvwxyz0123456789-~"

// refBase32 is an independent bit-level base32 encoder (RFC 4648 grouping, I2P alphabet).
func refBase32(x []byte, pad bool) []byte {
	var out []byte
	var acc uint32
	bits := 0
	for _, b := range x {
		acc = acc<<8 | uint32(b)
		bits += 8
		for bits >= 5 {
			out = append(out, alpha32[(acc>>uint(bits-5))&31])
			bits -= 5
		}
	}
	if bits > 0 {
		out = append(out, alpha32[(acc<<uint(5-bits))&31])
	}
	if pad {
		for len(out)%8 != 0 {
			out = append(out, '=')
		}
	}
	return out
}

// refBase64 is an independent bit-level base64 encoder (I2P alphabet, '=' padding).
func refBase64(x []byte) []byte {
	var out []byte
	var acc uint32
	bits := 0
	for _, b := range x {
		acc = acc<<8 | uint32(b)
		bits += 8
		for bits >= 6 {
			out = append(out, alpha64[(acc>>uint(bits-6))&63])
			bits -= 6
		}
	}
	if bits > 0 {
		out = append(out, alpha64[(acc<<uint(6-bits))&63])
	}
	for len(out)%4 != 0 {
		out = append(out, '=')
	}
	return out
}

// inAlpha is branch-free (nd.Or) so that the oracle itself does not fork per character.
func inAlpha(c byte, alpha string) bool {
	r := false
	for i := 0; i < len(alpha); i++ {
		r = nd.Or(r, c == alpha[i])
	}
	return r
}

// H_C13_Base32RT: through the real encoding/base32 code with the repo's encodings: encode == reference, decode(encode(x)) == x, padded and unpadded, x of 0..Nmax bytes, all contents.
//
//verif:props C13
//verif:witness decoded
func H_C13_Base32RT() {
	max := 7
	if nd.Thorough() {
		max = 11
	}
	n := nd.IntRange(0, max)
	x := nd.Bytes(n)
	s := base32.EncodeToString(x)
	nd.Assert(bytes.Equal([]byte(s), refBase32(x, true)), "b32/encode-matches-reference")
	y, err := base32.DecodeString(s)
	nd.Assert(err == nil, "b32/decode-ok")
	if err == nil {
		nd.Cover("decoded")
		nd.Assert(bytes.Equal(x, y), "b32/roundtrip")
	}
	u := base32.EncodeToStringNoPadding(x)
	nd.Assert(bytes.Equal([]byte(u), refBase32(x, false)), "b32/encode-nopad-matches-reference")
	z, err2 := base32.DecodeStringNoPadding(u)
	nd.Assert(err2 == nil && bytes.Equal(x, z), "b32/roundtrip-nopad")
	if n > 0 {
		ss, serr := base32.EncodeToStringSafe(x)
		nd.Assert(serr == nil && ss == s, "b32/safe-agrees")
		ds, dserr := base32.DecodeStringSafe(s)
		nd.Assert(dserr == nil && bytes.Equal(ds, x), "b32/safe-decode-agrees")
	}
}

// H_C13_Base64RT: same for base64, x of 0..Nmax bytes.
//
//verif:props C13
//verif:witness decoded
func H_C13_Base64RT() {
	max := 7
	if nd.Thorough() {
		max = 10
	}
	n := nd.IntRange(0, max)
	x := nd.Bytes(n)
	s := base64.EncodeToString(x)
	nd.Assert(bytes.Equal([]byte(s), refBase64(x)), "b64/encode-matches-reference")
	y, err := base64.DecodeString(s)
	nd.Assert(err == nil, "b64/decode-ok")
	if err == nil {
		nd.Cover("decoded")
		nd.Assert(bytes.Equal(x, y), "b64/roundtrip")
	}
	if n > 0 {
		ss, serr := base64.EncodeToStringSafe(x)
		nd.Assert(serr == nil && ss == s, "b64/safe-agrees")
		ds, dserr := base64.DecodeStringSafe(s)
		nd.Assert(dserr == nil && bytes.Equal(ds, x), "b64/safe-decode-agrees")
	}
}

// H_C13_Base32Decode: arbitrary 8-character strings (CR/LF excluded): accepted => every character is in the I2P alphabet or is legal trailing padding, and re-encoding gives the string back when unpadded.
//
//verif:props C13 C04
//verif:witness accepted rejected
func H_C13_Base32Decode() {
	s := nd.String(8)
	for i := 0; i < len(s); i++ {
		nd.Assume(s[i] != '\r' && s[i] != '\n')
	}
	b, err := base32.DecodeString(s)
	if err != nil {
		nd.Cover("rejected")
		return
	}
	nd.Cover("accepted")
	pad := false
	for i := 0; i < len(s); i++ {
		isPad := s[i] == '='
		nd.Assert(nd.Or(isPad, !pad), "b32/no-data-after-padding")
		nd.Assert(nd.Or(isPad, inAlpha(s[i], alpha32)), "b32/only-i2p-alphabet-accepted")
		pad = nd.Or(pad, isPad)
	}
	_ = b
}

// H_C13_Base64Decode: arbitrary 4- and 8-character strings (CR/LF excluded): accepted => alphabet or legal padding only.
//
//verif:props C13 C04
//verif:witness accepted rejected
func H_C13_Base64Decode() {
	n := []int{4, 8}[nd.IntRange(0, 1)]
	if !nd.Thorough() {
		n = 4
	}
	s := nd.String(n)
	for i := 0; i < len(s); i++ {
		nd.Assume(s[i] != '\r' && s[i] != '\n')
	}
	_, err := base64.DecodeString(s)
	if err != nil {
		nd.Cover("rejected")
		return
	}
	nd.Cover("accepted")
	pad := false
	for i := 0; i < len(s); i++ {
		isPad := s[i] == '='
		nd.Assert(nd.Or(!isPad, i >= n-2), "b64/padding-only-in-last-two")
		nd.Assert(nd.Or(isPad, !pad), "b64/no-data-after-padding")
		nd.Assert(nd.Or(isPad, inAlpha(s[i], alpha64)), "b64/only-i2p-alphabet-accepted")
		pad = nd.Or(pad, isPad)
	}
}

// H_C13_Limits: the size-guarded variants reject empty input and input above their documented limits, exactly at the limit (lengths limit-1, limit, limit+1; the coder itself is a stub for these megabyte inputs and only "was it reached" is observed).
//
//verif:props C13
//verif:steps 400000000
func H_C13_Limits() {
	const maxEnc = 10 * 1024 * 1024
	const maxDec32 = 16777216
	const maxDec64 = 13981016
	_, e0 := base32.EncodeToStringSafe(nil)
	nd.Assert(e0 != nil, "b32/encode-empty-rejected")
	_, e1 := base32.DecodeStringSafe("")
	nd.Assert(e1 != nil, "b32/decode-empty-rejected")
	_, e2 := base32.DecodeStringSafeNoPadding("")
	nd.Assert(e2 != nil, "b32/decode-nopad-empty-rejected")
	_, e3 := base64.EncodeToStringSafe([]byte{})
	nd.Assert(e3 != nil, "b64/encode-empty-rejected")
	_, e4 := base64.DecodeStringSafe("")
	nd.Assert(e4 != nil, "b64/decode-empty-rejected")
	d := nd.IntRange(-1, 1)
	switch nd.IntRange(0, 4) {
	case 0:
		_, err := base32.EncodeToStringSafe(make([]byte, maxEnc+d))
		nd.Assert((err == nil) == (d <= 0) && errors.Is(err, base32.ErrDataTooLarge) == (d > 0), "b32/encode-limit-exact")
	case 1:
		_, err := base64.EncodeToStringSafe(make([]byte, maxEnc+d))
		nd.Assert((err == nil) == (d <= 0) && errors.Is(err, base64.ErrDataTooLarge) == (d > 0), "b64/encode-limit-exact")
	case 2:
		_, err := base32.DecodeStringSafe(string(make([]byte, maxDec32+d)))
		nd.Assert(errors.Is(err, base32.ErrInputTooLarge) == (d > 0), "b32/decode-limit-exact")
	case 3:
		_, err := base32.DecodeStringSafeNoPadding(string(make([]byte, maxDec32+d)))
		nd.Assert(errors.Is(err, base32.ErrInputTooLarge) == (d > 0), "b32/decode-nopad-limit-exact")
	case 4:
		_, err := base64.DecodeStringSafe(string(make([]byte, maxDec64+d)))
		nd.Assert(errors.Is(err, base64.ErrStringTooLarge) == (d > 0), "b64/decode-limit-exact")
	}
}

// H_C13_NoPadAndSafe: the unpadded base32 decoder accepts only alphabet characters (no '='), and every size-guarded variant agrees with its plain counterpart on non-empty inputs within the limit (strings of 1..4 arbitrary bytes incl. CR/LF, and 8 bytes without CR/LF).
//
//verif:props C13 C04
//verif:witness accepted rejected
func H_C13_NoPadAndSafe() {
	var s string
	if nd.Bool() {
		s = nd.String(nd.IntRange(1, 4))
	} else {
		s = nd.String(8)
		for i := 0; i < len(s); i++ {
			nd.Assume(s[i] != '\r' && s[i] != '\n')
		}
	}
	a, aerr := base32.DecodeStringNoPadding(s)
	b, berr := base32.DecodeStringSafeNoPadding(s)
	nd.Assert((aerr == nil) == (berr == nil), "b32/nopad-safe-agrees-on-acceptance")
	if aerr == nil && berr == nil {
		nd.Assert(bytes.Equal(a, b), "b32/nopad-safe-agrees-on-result")
	}
	if aerr == nil {
		nd.Cover("accepted")
		for i := 0; i < len(s); i++ {
			nd.Assert(nd.Or(nd.Or(s[i] == '\r', s[i] == '\n'), inAlpha(s[i], alpha32)), "b32/nopad-only-i2p-alphabet-accepted")
		}
	} else {
		nd.Cover("rejected")
	}
	c, cerr := base32.DecodeString(s)
	d, derr := base32.DecodeStringSafe(s)
	nd.Assert((cerr == nil) == (derr == nil), "b32/safe-agrees-on-acceptance")
	if cerr == nil && derr == nil {
		nd.Assert(bytes.Equal(c, d), "b32/safe-agrees-on-result")
	}
	if len(s) <= 4 {
		e, eerr := base64.DecodeString(s)
		f, ferr := base64.DecodeStringSafe(s)
		nd.Assert((eerr == nil) == (ferr == nil), "b64/safe-agrees-on-acceptance")
		if eerr == nil && ferr == nil {
			nd.Assert(bytes.Equal(e, f), "b64/safe-agrees-on-result")
		}
	}
}

// H_C13_LongPadding: malformed padding far from the start: a valid prefix of L characters (every multiple of the
// group size up to 1400, thorough 4800 -- past the internal chunk sizes of any buffered decoder), then one group
// whose last two (base32: last) characters are arbitrary (CR/LF excluded), then one more valid group.  A '=' there is
// padding followed by more data and has to be rejected by the plain and the size-guarded decoders alike, which also
// agree with each other.
//
//verif:props C13 C04
//verif:witness pad-rejected accepted
//verif:policies runtime
//verif:loopcap 20000
//verif:fanout 1300
func H_C13_LongPadding() {
	maxL := 1400
	if nd.Thorough() {
		maxL = 4800
	}
	if nd.Bool() {
		L := 4 * nd.IntRange(0, maxL/4)
		x, y := nd.Byte(), nd.Byte()
		nd.Assume(x != '\r' && x != '\n' && y != '\r' && y != '\n')
		buf := make([]byte, 0, L+8)
		for i := 0; i < L; i += 4 {
			buf = append(buf, '-', '~', '~', '-')
		}
		buf = append(buf, '~', 'w', x, y, 'Q', 'U', 'F', 'B')
		s := string(buf)
		a, aerr := base64.DecodeString(s)
		b, berr := base64.DecodeStringSafe(s)
		nd.Assert((aerr == nil) == (berr == nil), "b64long/safe-agrees-on-acceptance")
		if aerr == nil && berr == nil {
			nd.Assert(bytes.Equal(a, b), "b64long/safe-agrees-on-result")
			nd.Cover("accepted")
		}
		if nd.Or(x == '=', y == '=') {
			nd.Cover("pad-rejected")
			nd.Assert(aerr != nil, "b64long/padding-before-more-data-rejected")
			nd.Assert(berr != nil, "b64long/safe/padding-before-more-data-rejected")
		}
		return
	}
	L := 8 * nd.IntRange(0, maxL/8)
	x := nd.Byte()
	nd.Assume(x != '\r' && x != '\n')
	buf := make([]byte, 0, L+16)
	for i := 0; i < L; i += 8 {
		buf = append(buf, 'a', 'b', 'c', 'd', '2', '3', '4', '7')
	}
	buf = append(buf, 'm', 'f', 'r', 'g', 'g', 'z', 'd', x)
	buf = append(buf, 'm', 'f', 'r', 'g', 'g', 'z', 'd', 'f')
	s := string(buf)
	a, aerr := base32.DecodeString(s)
	b, berr := base32.DecodeStringSafe(s)
	nd.Assert((aerr == nil) == (berr == nil), "b32long/safe-agrees-on-acceptance")
	if aerr == nil && berr == nil {
		nd.Assert(bytes.Equal(a, b), "b32long/safe-agrees-on-result")
		nd.Cover("accepted")
	}
	if x == '=' {
		nd.Cover("pad-rejected")
		nd.Assert(aerr != nil, "b32long/padding-before-more-data-rejected")
		nd.Assert(berr != nil, "b32long/safe/padding-before-more-data-rejected")
	}
}
