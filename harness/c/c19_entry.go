package c

import (
	"bytes"

	"verifh/nd"

	"github.com/go-i2p/common/certificate"
	"github.com/go-i2p/common/data"
	"github.com/go-i2p/common/destination"
	"github.com/go-i2p/common/key_certificate"
	"github.com/go-i2p/common/keys_and_cert"
	"github.com/go-i2p/common/router_identity"
	"github.com/go-i2p/common/session_key"
	"github.com/go-i2p/common/session_tag"
	"github.com/go-i2p/common/signature"
)

// agree asserts that two entry points gave the same (accepted?, serialisation, remainder).
func agree(tag string, okA, okB bool, outA, outB []byte, remA, remB []byte) {
	nd.Assert(okA == okB, tag+"/accept-same-inputs")
	if okA && okB {
		nd.Cover("both-accepted")
		nd.Assert(bytes.Equal(outA, outB), tag+"/same-serialisation")
		nd.Assert(bytes.Equal(remA, remB), tag+"/same-remainder")
	}
}

func kacSer(k *keys_and_cert.KeysAndCert, err error) ([]byte, bool) {
	if err != nil || k == nil {
		return nil, false
	}
	b, berr := k.Bytes()
	return b, berr == nil
}

// H_C19_FastPathReaders: the generic keys-and-cert reader and the two key-type-specific readers agree within the fast paths' stated key types (ElGamal+Ed25519, X25519+Ed25519); certificate length and excess payload free.
//
//verif:props C19
//verif:witness both-accepted
func H_C19_FastPathReaders() {
	in := nd.Bytes(kacN)
	cry := []int{0, 4}[nd.IntRange(0, 1)]
	pin(in, 384, 5)
	nd.Assume(in[385] == 0 && in[386] <= 8)
	pin(in, 387, 0, 7, 0, byte(cry))
	g, grem, gerr := keys_and_cert.ReadKeysAndCert(in)
	var f *keys_and_cert.KeysAndCert
	var frem []byte
	var ferr error
	if cry == 0 {
		f, frem, ferr = keys_and_cert.ReadKeysAndCertElgAndEd25519(in)
	} else {
		f, frem, ferr = keys_and_cert.ReadKeysAndCertX25519AndEd25519(in)
	}
	gs, gok := kacSer(g, gerr)
	fs, fok := kacSer(f, ferr)
	agree("kac-fastpath", gok, fok, gs, fs, grem, frem)
}

// H_C19_PointerReaders: pointer- versus value-returning readers (RouterIdentity, Integer, SessionKey, SessionTag, ECIESSessionTag, I2PString).
//
//verif:props C19
//verif:witness both-accepted
func H_C19_PointerReaders() {
	switch nd.IntRange(0, 5) {
	case 0:
		in := kacInput()
		a, arem, aerr := router_identity.ReadRouterIdentity(in)
		b, brem, berr := router_identity.NewRouterIdentityFromBytes(in)
		var as, bs []byte
		aok, bok := aerr == nil, berr == nil
		if aok {
			as, _ = a.Bytes()
		}
		if bok {
			bs, _ = b.Bytes()
		}
		agree("ident", aok, bok, as, bs, arem, brem)
	case 1:
		size := nd.IntRange(1, 8)
		in := nd.Bytes(nd.IntRange(0, 9))
		a, arem := data.ReadInteger(in, size)
		b, brem, berr := data.NewInteger(in, size)
		nd.Assert(berr == nil && b != nil, "integer/ptr-ok")
		if b != nil {
			agree("integer", true, true, a, *b, arem, brem)
		}
	case 2:
		in := nd.Bytes(nd.IntRange(31, 34))
		a, arem, aerr := session_key.ReadSessionKey(in)
		b, brem, berr := session_key.NewSessionKey(in)
		var bs []byte
		if berr == nil && b != nil {
			bs = b.Bytes()
		}
		agree("sessionkey", aerr == nil, berr == nil, a.Bytes(), bs, arem, brem)
	case 3:
		in := nd.Bytes(nd.IntRange(31, 34))
		a, arem, aerr := session_tag.ReadSessionTag(in)
		b, brem, berr := session_tag.NewSessionTag(in)
		var bs []byte
		if berr == nil && b != nil {
			bs = b.Bytes()
		}
		agree("sessiontag", aerr == nil, berr == nil, a.Bytes(), bs, arem, brem)
		if aerr == nil {
			c, cerr := session_tag.NewSessionTagFromBytes(in[:32])
			nd.Assert(cerr == nil && bytes.Equal(c.Bytes(), a.Bytes()), "sessiontag/frombytes-agrees")
		}
	case 4:
		in := nd.Bytes(nd.IntRange(7, 10))
		a, arem, aerr := session_tag.ReadECIESSessionTag(in)
		b, brem, berr := session_tag.NewECIESSessionTag(in)
		var bs []byte
		if berr == nil && b != nil {
			bs = b.Bytes()
		}
		agree("eciestag", aerr == nil, berr == nil, a.Bytes(), bs, arem, brem)
	case 5:
		in := nd.Bytes(nd.IntRange(1, 5))
		a, arem, aerr := data.ReadI2PString(in)
		// NewI2PStringFromBytes takes exactly one string: compare on inputs without trailing bytes
		b, berr := data.NewI2PStringFromBytes(in)
		if aerr == nil && len(arem) == 0 {
			nd.Cover("both-accepted")
			nd.Assert(berr == nil && bytes.Equal(a, b), "string/frombytes-agrees")
		}
		if berr == nil {
			nd.Assert(aerr == nil && len(arem) == 0 && bytes.Equal(a, b), "string/read-agrees")
		}
	}
}

// H_C19_KeyCertificate: a key certificate from bytes, from a parsed certificate, from types, from the builder and from BuildKeyTypePayload agree.
//
//verif:props C19
//verif:witness both-accepted
func H_C19_KeyCertificate() {
	if nd.Bool() {
		// from bytes vs from certificate
		in := nd.Bytes(nd.IntRange(3, 11))
		a, arem, aerr := key_certificate.NewKeyCertificate(in)
		cert, crem, cerr := certificate.ReadCertificate(in)
		var b *key_certificate.KeyCertificate
		var berr error = cerr
		if cerr == nil {
			b, berr = key_certificate.KeyCertificateFromCertificate(cert)
		}
		var as, bs []byte
		if aerr == nil {
			as = a.Bytes()
		}
		if berr == nil {
			bs = b.Bytes()
		}
		agree("keycert-bytes-vs-cert", aerr == nil, berr == nil, as, bs, arem, crem)
		if aerr == nil && berr == nil {
			nd.Assert(a.SigningPublicKeyType() == b.SigningPublicKeyType() && a.PublicKeyType() == b.PublicKeyType(), "keycert/same-types")
		}
		return
	}
	st, ct := nd.Int(), nd.Int()
	a, aerr := key_certificate.NewKeyCertificateWithTypes(st, ct)
	pl, perr := certificate.BuildKeyTypePayload(st, ct)
	bld := certificate.NewCertificateBuilder()
	_, werr := bld.WithKeyTypes(st, ct)
	var bc *certificate.Certificate
	var berr error = werr
	if werr == nil {
		bc, berr = bld.Build()
	}
	// the typed constructor additionally restricts to known type codes: whenever it accepts, the others must
	// accept too and all serialisations must agree
	if aerr == nil {
		nd.Cover("both-accepted")
		nd.Assert(perr == nil && berr == nil, "keycert/known-types-accepted-by-all")
		if perr == nil && berr == nil {
			want := append([]byte{5, 0, 4}, pl...)
			nd.Assert(bytes.Equal(a.Bytes(), want), "keycert/withtypes-vs-payload")
			nd.Assert(bytes.Equal(bc.Bytes(), want), "keycert/builder-vs-payload")
			nd.Assert(a.SigningPublicKeyType() == st && a.PublicKeyType() == ct, "keycert/types-roundtrip")
		}
	}
	// builder and BuildKeyTypePayload state the same domain (non-negative 16-bit codes)
	nd.Assert((perr == nil) == (berr == nil), "keycert/builder-and-payload-accept-same-inputs")
	if perr == nil && berr == nil {
		nd.Assert(bytes.Equal(bc.Bytes(), append([]byte{5, 0, 4}, pl...)), "keycert/builder-payload-same-bytes")
		direct, derr := certificate.NewCertificateWithType(5, pl)
		nd.Assert(derr == nil && bytes.Equal(direct.Bytes(), bc.Bytes()), "cert/direct-vs-builder")
	}
}

// H_C19_CertificateBuilder: NewCertificateWithType versus the builder for every certificate type and payload lengths around the documented sizes.
//
//verif:props C19
//verif:witness both-accepted
func H_C19_CertificateBuilder() {
	t := nd.Byte()
	lens := []int{0, 1, 4, 39, 40, 41, 72, 73}
	p := nd.Bytes(lens[nd.IntRange(0, len(lens)-1)])
	a, aerr := certificate.NewCertificateWithType(t, p)
	bld := certificate.NewCertificateBuilder()
	_, werr := bld.WithType(t)
	var b *certificate.Certificate
	var berr error = werr
	if werr == nil {
		b, berr = bld.WithPayload(p).Build()
	}
	var as, bs []byte
	if aerr == nil {
		as = a.Bytes()
	}
	if berr == nil {
		bs = b.Bytes()
	}
	agree("cert-builder", aerr == nil, berr == nil, as, bs, nil, nil)
	if aerr == nil {
		back, rem, rerr := certificate.ReadCertificate(as)
		nd.Assert(rerr == nil && len(rem) == 0 && bytes.Equal(back.Bytes(), as), "cert/constructed-reparses")
	}
}

// H_C19_Signatures: ReadSignature, NewSignature and NewSignatureFromBytes agree (type code free).
//
//verif:props C19
//verif:witness both-accepted
//verif:fanout 600
func H_C19_Signatures() {
	t := nd.Int()
	_, ss, ok := specSigning(t)
	n := 8
	if ok {
		n = ss + nd.IntRange(-1, 1)
	}
	in := nd.Bytes(n)
	a, arem, aerr := signature.ReadSignature(in, t)
	b, brem, berr := signature.NewSignature(in, t)
	var bs []byte
	if berr == nil && b != nil {
		bs = b.Bytes()
	}
	agree("sig-read-vs-new", aerr == nil, berr == nil, a.Bytes(), bs, arem, brem)
	c, cerr := signature.NewSignatureFromBytes(in, t)
	// NewSignatureFromBytes takes exactly one signature
	if aerr == nil && len(arem) == 0 {
		nd.Assert(cerr == nil && bytes.Equal(c.Bytes(), a.Bytes()) && c.Type() == a.Type(), "sig/frombytes-agrees")
	}
	if cerr == nil {
		nd.Assert(aerr == nil && len(arem) == 0, "sig/frombytes-accepts-only-exact")
	}
}

// H_C19_BuilderSequences: a builder that is reused or reconfigured agrees with the direct constructor for its LAST configuration (key types set twice; payload then key types; key types then payload).
//
//verif:props C19
//verif:witness both-accepted
func H_C19_BuilderSequences() {
	known := []int{0, 1, 7, 11}
	s1, s2 := known[nd.IntRange(0, 3)], known[nd.IntRange(0, 3)]
	c1, c2 := []int{0, 4}[nd.IntRange(0, 1)], []int{0, 4}[nd.IntRange(0, 1)]
	pl2, perr := certificate.BuildKeyTypePayload(s2, c2)
	nd.Assume(perr == nil)
	want, werr := certificate.NewCertificateWithType(5, pl2)
	nd.Assume(werr == nil)
	b := certificate.NewCertificateBuilder()
	switch nd.IntRange(0, 2) {
	case 0:
		_, e1 := b.WithKeyTypes(s1, c1)
		nd.Assume(e1 == nil)
		first, ferr := b.Build()
		nd.Assume(ferr == nil && first != nil)
		_, e2 := b.WithKeyTypes(s2, c2)
		nd.Assume(e2 == nil)
	case 1:
		b.WithPayload(nd.Bytes(nd.IntRange(0, 5)))
		_, e2 := b.WithKeyTypes(s2, c2)
		nd.Assume(e2 == nil)
	case 2:
		_, e1 := b.WithKeyTypes(s1, c1)
		nd.Assume(e1 == nil)
		_, e2 := b.WithKeyTypes(s2, c2)
		nd.Assume(e2 == nil)
	}
	got, gerr := b.Build()
	nd.Assert(gerr == nil && got != nil, "builder-seq/builds")
	if gerr == nil && got != nil {
		nd.Cover("both-accepted")
		nd.Assert(bytes.Equal(got.Bytes(), want.Bytes()), "builder-seq/last-configuration-wins-like-direct-constructor")
	}
}

// H_C19_Identities: the wrappers agree with the path through the generic reader: ReadDestination / NewDestinationFromBytes
// versus ReadKeysAndCert + NewDestination, and ReadRouterIdentity / NewRouterIdentityFromBytes versus ReadKeysAndCert +
// NewRouterIdentityFromKeysAndCert, on the same input (type bytes free; NULL certificates followed by free trailing
// bytes): same acceptance, same serialisation, same remainder.
//
//verif:props C19
//verif:witness both-accepted both-rejected
func H_C19_Identities() {
	in := kacInput()
	k, krem, kerr := keys_and_cert.ReadKeysAndCert(in)
	if nd.Bool() {
		d, drem, derr := destination.ReadDestination(in)
		var d2 *destination.Destination
		var d2err error
		if kerr == nil {
			d2, d2err = destination.NewDestination(k)
		}
		viaGeneric := kerr == nil && d2err == nil && d2 != nil
		nd.Assert((derr == nil) == viaGeneric, "ident/dest/same-acceptance")
		d3, d3rem, d3err := destination.NewDestinationFromBytes(in)
		nd.Assert((d3err == nil) == (derr == nil), "ident/dest/frombytes-same-acceptance")
		if derr == nil && viaGeneric {
			nd.Cover("both-accepted")
			a, _ := d.Bytes()
			b, _ := d2.Bytes()
			nd.Assert(bytes.Equal(a, b), "ident/dest/same-serialisation")
			nd.Assert(len(drem) == len(krem), "ident/dest/same-remainder")
			if d3err == nil && d3 != nil {
				c, _ := d3.Bytes()
				nd.Assert(bytes.Equal(a, c) && len(d3rem) == len(drem), "ident/dest/frombytes-same-result")
			}
		} else {
			nd.Cover("both-rejected")
		}
		return
	}
	r, rrem, rerr := router_identity.ReadRouterIdentity(in)
	var r2 *router_identity.RouterIdentity
	var r2err error
	if kerr == nil {
		r2, r2err = router_identity.NewRouterIdentityFromKeysAndCert(k)
	}
	viaGeneric := kerr == nil && r2err == nil && r2 != nil
	nd.Assert((rerr == nil) == viaGeneric, "ident/ri/same-acceptance")
	r3, r3rem, r3err := router_identity.NewRouterIdentityFromBytes(in)
	nd.Assert((r3err == nil) == (rerr == nil), "ident/ri/frombytes-same-acceptance")
	if rerr == nil && viaGeneric {
		nd.Cover("both-accepted")
		a, _ := r.Bytes()
		b, _ := r2.Bytes()
		nd.Assert(bytes.Equal(a, b), "ident/ri/same-serialisation")
		nd.Assert(len(rrem) == len(krem), "ident/ri/same-remainder")
		if r3err == nil && r3 != nil {
			c, _ := r3.Bytes()
			nd.Assert(bytes.Equal(a, c) && len(r3rem) == len(rrem), "ident/ri/frombytes-same-result")
		}
	} else {
		nd.Cover("both-rejected")
	}
}
