package c

import (
	"bytes"

	"verifh/nd"

	"github.com/go-i2p/common/certificate"
)

// H_C01_Cert: ReadCertificate -> Bytes round trip, free-form, every N in 0..Nmax, type and length bytes symbolic.
//
//verif:props C01 C03 C04
//verif:witness accepted
func H_C01_Cert() {
	max := 10
	if nd.Thorough() {
		max = 14
	}
	n := nd.IntRange(0, max)
	in := nd.Bytes(n)
	c, rem, err := certificate.ReadCertificate(in)
	if err != nil {
		return
	}
	nd.Cover("accepted")
	out := c.Bytes()
	nd.Assert(len(rem) <= len(in), "cert/remlen")
	k := len(in) - len(rem)
	nd.Assert(bytes.Equal(rem, in[k:]), "cert/rem-suffix")
	nd.Assert(bytes.Equal(out, in[:k]), "cert/roundtrip")
	nd.ObserveBytes("out", out)
}
