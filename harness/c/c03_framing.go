package c

import (
	"bytes"

	"verifh/nd"

	"github.com/go-i2p/common/certificate"
	"github.com/go-i2p/common/data"
	"github.com/go-i2p/common/destination"
	"github.com/go-i2p/common/encrypted_leaseset"
	"github.com/go-i2p/common/key_certificate"
	"github.com/go-i2p/common/keys_and_cert"
	"github.com/go-i2p/common/lease"
	"github.com/go-i2p/common/lease_set2"
	"github.com/go-i2p/common/meta_leaseset"
	"github.com/go-i2p/common/offline_signature"
	"github.com/go-i2p/common/router_address"
	"github.com/go-i2p/common/router_identity"
	"github.com/go-i2p/common/router_info"
	"github.com/go-i2p/common/session_key"
	"github.com/go-i2p/common/session_tag"
	"github.com/go-i2p/common/signature"
)

// parseFn runs one parser: ok = accepted, out = serialisation of the value, rem = length of the remainder.
type parseFn func(b []byte) (out []byte, rem int, ok bool)

// framing checks C03 (ii) and (iii) for an input the parser accepted:
// (ii) parsing exactly the consumed bytes gives the same value and an empty remainder (so the result
// does not depend on what follows: the spare bytes of in are symbolic, i.e. "for every appended x");
// (iii) no proper prefix in[:k] of the consumed bytes is accepted; k is chosen by cuts.
func framing(tag string, in []byte, p parseFn, allCuts bool, extra []int) {
	out, rem, ok := p(in)
	if !ok {
		return
	}
	nd.Cover("accepted")
	c := len(in) - rem
	nd.Assert(c >= 0 && c <= len(in), tag+"/consumed-in-range")
	out2, rem2, ok2 := p(in[:c])
	nd.Assert(ok2, tag+"/exact-extent-accepted")
	if ok2 {
		nd.Assert(rem2 == 0, tag+"/exact-extent-no-remainder")
		nd.Assert(bytes.Equal(out, out2), tag+"/value-independent-of-trailing-bytes")
	}
	if c == 0 {
		return
	}
	var k int
	if allCuts {
		k = nd.IntRange(0, c-1)
	} else {
		cuts := []int{0, 1, c / 2, c - 2, c - 1}
		for _, e := range extra {
			cuts = append(cuts, e-1, e, e+1)
		}
		k = cuts[nd.IntRange(0, len(cuts)-1)]
		nd.Assume(k >= 0 && k < c)
	}
	_, _, ok3 := p(in[:k])
	nd.Assert(!ok3, tag+"/proper-prefix-rejected")
	nd.Cover("prefix-tried")
}

// H_C03_Small: framing of the small free-form parsers (certificate, key certificate, string, date, hash, mapping, leases, session key/tags), every cut point.
//
//verif:props C03
//verif:witness accepted prefix-tried
func H_C03_Small() {
	which := nd.IntRange(0, 10)
	switch which {
	case 0:
		in := nd.Bytes(nd.IntRange(3, 8))
		framing("cert", in, func(b []byte) ([]byte, int, bool) {
			c, rem, err := certificate.ReadCertificate(b)
			if err != nil {
				return nil, 0, false
			}
			return c.Bytes(), len(rem), true
		}, true, nil)
	case 1:
		in := nd.Bytes(nd.IntRange(7, 10))
		framing("keycert", in, func(b []byte) ([]byte, int, bool) {
			c, rem, err := key_certificate.NewKeyCertificate(b)
			if err != nil {
				return nil, 0, false
			}
			return c.Bytes(), len(rem), true
		}, true, nil)
	case 2:
		in := nd.Bytes(nd.IntRange(1, 6))
		framing("string", in, func(b []byte) ([]byte, int, bool) {
			s, rem, err := data.ReadI2PString(b)
			if err != nil {
				return nil, 0, false
			}
			return s, len(rem), true
		}, true, nil)
	case 3:
		in := nd.Bytes(10)
		framing("date", in, func(b []byte) ([]byte, int, bool) {
			d, rem, err := data.ReadDate(b)
			if err != nil {
				return nil, 0, false
			}
			return d.Bytes(), len(rem), true
		}, true, nil)
	case 4:
		in := nd.Bytes(34)
		framing("hash", in, func(b []byte) ([]byte, int, bool) {
			h, rem, err := data.ReadHash(b)
			if err != nil {
				return nil, 0, false
			}
			x := h.Bytes()
			return x[:], len(rem), true
		}, true, nil)
	case 5:
		in := nd.Bytes(nd.IntRange(2, 11))
		framing("mapping", in, func(b []byte) ([]byte, int, bool) {
			m, rem, errs := data.ReadMapping(b)
			if len(errs) != 0 {
				return nil, 0, false
			}
			return m.Data(), len(rem), true
		}, true, nil)
	case 6:
		in := nd.Bytes(46)
		framing("lease", in, func(b []byte) ([]byte, int, bool) {
			l, rem, err := lease.ReadLease(b)
			if err != nil {
				return nil, 0, false
			}
			return l.Bytes(), len(rem), true
		}, true, nil)
	case 7:
		in := nd.Bytes(42)
		framing("lease2", in, func(b []byte) ([]byte, int, bool) {
			l, rem, err := lease.ReadLease2(b)
			if err != nil {
				return nil, 0, false
			}
			return l.Bytes(), len(rem), true
		}, true, nil)
	case 8:
		in := nd.Bytes(34)
		framing("sessionkey", in, func(b []byte) ([]byte, int, bool) {
			k, rem, err := session_key.ReadSessionKey(b)
			if err != nil {
				return nil, 0, false
			}
			return k.Bytes(), len(rem), true
		}, true, nil)
	case 9:
		in := nd.Bytes(34)
		framing("sessiontag", in, func(b []byte) ([]byte, int, bool) {
			k, rem, err := session_tag.ReadSessionTag(b)
			if err != nil {
				return nil, 0, false
			}
			return k.Bytes(), len(rem), true
		}, true, nil)
	case 10:
		in := nd.Bytes(10)
		framing("eciestag", in, func(b []byte) ([]byte, int, bool) {
			k, rem, err := session_tag.ReadECIESSessionTag(b)
			if err != nil {
				return nil, 0, false
			}
			return k.Bytes(), len(rem), true
		}, true, nil)
	}
}

// H_C03_Integer: ReadInteger has no error channel: a cut input yields an Integer shorter than the requested size.
//
//verif:props C03
func H_C03_Integer() {
	size := nd.IntRange(1, 8)
	in := nd.Bytes(size + 2)
	i, rem := data.ReadInteger(in, size)
	nd.Assert(len(i) == size && len(rem) == 2, "integer/complete")
	nd.Assert(bytes.Equal(rem, in[size:]), "integer/rem-suffix")
	i2, rem2 := data.ReadInteger(in[:size], size)
	nd.Assert(bytes.Equal(i, i2) && len(rem2) == 0, "integer/exact-extent")
	k := nd.IntRange(0, size-1)
	i3, _ := data.ReadInteger(in[:k], size)
	nd.Assert(len(i3) < size, "integer/prefix-incomplete")
}

// H_C03_Signatures: Signature and OfflineSignature framing for every size class; cut points at the boundaries.
//
//verif:props C03
//verif:witness accepted prefix-tried
func H_C03_Signatures() {
	types := []int{0, 1, 2, 3, 4, 5, 6, 7, 8, 11}
	t := types[nd.IntRange(0, len(types)-1)]
	if nd.Bool() {
		_, ss := sigLens(t)
		in := nd.Bytes(ss + 2)
		framing("sig", in, func(b []byte) ([]byte, int, bool) {
			s, rem, err := signature.ReadSignature(b, t)
			if err != nil {
				return nil, 0, false
			}
			return s.Bytes(), len(rem), true
		}, false, nil)
		return
	}
	dts := []int{0, 1, 7, 11}
	dt := dts[nd.IntRange(0, len(dts)-1)]
	tp, _ := sigLens(t)
	_, ds := sigLens(dt)
	in := nd.Bytes(6 + tp + ds + 2)
	pin(in, 4, byte(t>>8), byte(t))
	framing("offline", in, func(b []byte) ([]byte, int, bool) {
		o, rem, err := offline_signature.ReadOfflineSignature(b, uint16(dt))
		if err != nil {
			return nil, 0, false
		}
		return o.Bytes(), len(rem), true
	}, false, []int{6, 6 + tp})
}

// H_C03_KeysAndCert: framing of ReadKeysAndCert / ReadDestination / ReadRouterIdentity (free type bytes).
//
//verif:props C03
//verif:witness accepted prefix-tried
func H_C03_KeysAndCert() {
	in := kacInput()
	switch nd.IntRange(0, 2) {
	case 0:
		framing("kac", in, func(b []byte) ([]byte, int, bool) {
			k, rem, err := keys_and_cert.ReadKeysAndCert(b)
			if err != nil {
				return nil, 0, false
			}
			o, e := k.Bytes()
			return o, len(rem), e == nil
		}, false, []int{384, 387, 391})
	case 1:
		framing("dest", in, func(b []byte) ([]byte, int, bool) {
			k, rem, err := destination.ReadDestination(b)
			if err != nil {
				return nil, 0, false
			}
			o, e := k.Bytes()
			return o, len(rem), e == nil
		}, false, []int{384, 387, 391})
	case 2:
		framing("ident", in, func(b []byte) ([]byte, int, bool) {
			k, rem, err := router_identity.ReadRouterIdentity(b)
			if err != nil {
				return nil, 0, false
			}
			o, e := k.Bytes()
			return o, len(rem), e == nil
		}, false, []int{384, 387, 391})
	}
}

// H_C03_RouterAddress: framing of ReadRouterAddress, free-form, every cut point.
//
//verif:props C03
//verif:witness accepted prefix-tried
func H_C03_RouterAddress() {
	max := 16
	if nd.Thorough() {
		max = 20
	}
	in := nd.Bytes(nd.IntRange(12, max))
	framing("ra", in, func(b []byte) ([]byte, int, bool) {
		a, rem, err := router_address.ReadRouterAddress(b)
		if err != nil {
			return nil, 0, false
		}
		return a.Bytes(), len(rem), true
	}, true, nil)
}

// H_C03_Composites: framing of RouterInfo, LeaseSet2, MetaLeaseSet, EncryptedLeaseSet on their shape grids; cut points at 0,1,c/2,c-2,c-1 and around the signature start.
//
//verif:props C03
//verif:witness accepted prefix-tried
func H_C03_Composites() {
	switch nd.IntRange(0, 3) {
	case 0:
		shapes := riShapes()
		s := shapes[nd.IntRange(0, len(shapes)-1)]
		in, total := s.build()
		_, ss := sigLens(destSigType(s.sigT))
		framing("ri", in, func(b []byte) ([]byte, int, bool) {
			v, rem, err := router_info.ReadRouterInfo(b)
			if err != nil {
				return nil, 0, false
			}
			o, e := v.Bytes()
			return o, len(rem), e == nil
		}, false, []int{total - ss, 387})
	case 1:
		shapes := ls2Shapes()
		s := shapes[nd.IntRange(0, len(shapes)-1)]
		in, total := s.build()
		framing("ls2", in, func(b []byte) ([]byte, int, bool) {
			v, rem, err := lease_set2.ReadLeaseSet2(b)
			if err != nil {
				return nil, 0, false
			}
			o, e := v.Bytes()
			return o, len(rem), e == nil
		}, false, []int{total - 64, 399})
	case 2:
		shapes := metaShapes()
		s := shapes[nd.IntRange(0, len(shapes)-1)]
		in, total := s.build()
		framing("meta", in, func(b []byte) ([]byte, int, bool) {
			v, rem, err := meta_leaseset.ReadMetaLeaseSet(b)
			if err != nil {
				return nil, 0, false
			}
			o, e := v.Bytes()
			return o, len(rem), e == nil
		}, false, []int{total - 64, 399})
	case 3:
		shapes := encShapes()
		s := shapes[nd.IntRange(0, len(shapes)-1)]
		in, total := s.build()
		framing("enc", in, func(b []byte) ([]byte, int, bool) {
			v, rem, err := encrypted_leaseset.ReadEncryptedLeaseSet(b)
			if err != nil {
				return nil, 0, false
			}
			o, e := v.Bytes()
			return o, len(rem), e == nil
		}, false, []int{total - 64, 42})
	}
}
