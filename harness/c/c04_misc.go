package c

import (
	"verifh/nd"

	"github.com/go-i2p/common/base32"
	"github.com/go-i2p/common/base64"
	"github.com/go-i2p/common/data"
	"github.com/go-i2p/common/encrypted_leaseset"
	"github.com/go-i2p/common/key_certificate"
	"github.com/go-i2p/common/lease_set"
	"github.com/go-i2p/common/lease_set2"
	"github.com/go-i2p/common/meta_leaseset"
	"github.com/go-i2p/common/router_info"
	"github.com/go-i2p/common/signature"
)

// H_C04_Decoders: exported decoders and constructors that take bytes plus a type/size argument: every input of the stated lengths, type/size arguments free 64-bit integers; the obligation is "returns normally" (panics are implicit obligations of the executor).
//
//verif:props C04
//verif:fanout 300
func H_C04_Decoders() {
	switch nd.IntRange(0, 8) {
	case 0:
		_, _ = base32.DecodeString(nd.String(nd.IntRange(0, 4)))
	case 1:
		_, _ = base32.DecodeStringNoPadding(nd.String(nd.IntRange(0, 4)))
	case 2:
		_, _ = base64.DecodeString(nd.String(nd.IntRange(0, 3)))
	case 3:
		_, _ = data.DecodeIntN(nd.Bytes(nd.IntRange(0, 10)))
		_, _ = data.NewIntegerFromBytes(nd.Bytes(nd.IntRange(0, 10)))
	case 4:
		_, _ = data.NewHashFromSlice(nd.Bytes(nd.IntRange(30, 34)))
		_, _, _ = data.ReadHash(nd.Bytes(nd.IntRange(30, 34)))
	case 5:
		t := nd.Int()
		lens := []int{0, 1, 31, 32, 33, 63, 64, 65, 95, 96, 97, 127, 128, 129, 132, 256}
		k, err := key_certificate.ConstructSigningPublicKeyByType(nd.Bytes(lens[nd.IntRange(0, len(lens)-1)]), t)
		if err == nil && k != nil {
			_ = k.Len()
			_ = k.Bytes()
		}
	case 6:
		kc := key_certificate.KeyCertificate{SpkType: nd.Bytes(2), CpkType: nd.Bytes(2)}
		lens := []int{0, 31, 32, 255, 256, 257, 384}
		b := nd.Bytes(lens[nd.IntRange(0, len(lens)-1)])
		if nd.Bool() {
			p, err := kc.ConstructPublicKey(b)
			if err == nil && p != nil {
				_ = p.Len()
			}
		} else {
			p, err := kc.ConstructSigningPublicKey(b)
			if err == nil && p != nil {
				_ = p.Len()
			}
		}
	case 7:
		t := nd.Int()
		_, _, _ = signature.ReadSignature(nd.Bytes([]int{0, 39, 40, 64, 96, 132, 256, 384, 512}[nd.IntRange(0, 8)]), t)
		_, _ = signature.NewSignatureFromBytes(nd.Bytes([]int{0, 40, 64}[nd.IntRange(0, 2)]), t)
		_, _ = signature.SignatureSize(t)
	case 8:
		_, _ = data.NewI2PStringFromBytes(nd.Bytes(nd.IntRange(0, 4)))
		s := data.I2PString(nd.Bytes(nd.IntRange(0, 4)))
		_, _ = s.Data()
		_, _ = s.DataSafe()
		_, _ = s.Length()
	}
}

// H_C04_HeaderFree: composite parsers with their COUNT bytes free (0..255): number of keys and leases (LeaseSet2, key lengths pinned to 0), number of entries (MetaLeaseSet, properties pinned empty), number of addresses (RouterInfo, minimal addresses), lease count (LeaseSet).
//
//verif:props C04
//verif:fanout 300
func H_C04_HeaderFree() {
	which := nd.IntRange(0, 5)
	covShape("case", which)
	switch which {
	case 4:
		// one encryption key whose 16-bit LENGTH field is free (all 65,536 values: the solver splits them into
		// "fits the buffer" -- enumerated, at most ~100 values -- and "does not fit")
		in := nd.Bytes(391 + 8 + 2 + 1 + 4 + 100)
		pinDest(in, 0, 7, 4, 0)
		nd.Assume(in[398]&1 == 0)
		pin(in, 399, 0, 0, 1, 0, 0xff)
		ls, _, err := lease_set2.ReadLeaseSet2(in)
		if err == nil {
			_, _ = ls.Bytes()
		}
	case 5:
		// EncryptedLeaseSet with a free 16-bit inner length
		in := nd.Bytes(2 + 32 + 8 + 2 + 70 + 64)
		pin(in, 0, 0, 11)
		nd.Assume(in[41]&1 == 0)
		e, _, err := encrypted_leaseset.ReadEncryptedLeaseSet(in)
		if err == nil {
			_, _ = e.Bytes()
		}
	case 0:
		in := nd.Bytes(560)
		pinDest(in, 0, 7, 4, 0)
		nd.Assume(in[398]&1 == 0)
		pin(in, 399, 0, 0) // empty options
		for i := 0; i < 17; i++ {
			pin(in, 402+4*i, 0, 0xff, 0, 0) // every possible key header: unknown type 255, length 0
		}
		ls, _, err := lease_set2.ReadLeaseSet2(in)
		if err == nil {
			_, _ = ls.Bytes()
			_ = ls.Validate()
		}
	case 1:
		in := nd.Bytes(600)
		pinDest(in, 0, 7, 4, 0)
		nd.Assume(in[398]&1 == 0)
		pin(in, 399, 0, 0)
		for i := 0; i < 4; i++ {
			pin(in, 402+40*i+32, 3) // entry type
			pin(in, 402+40*i+38, 0, 0)
		}
		m, _, err := meta_leaseset.ReadMetaLeaseSet(in)
		if err == nil {
			_, _ = m.Bytes()
			_ = m.NumEntries()
		}
	case 2:
		in := nd.Bytes(391 + 8 + 1 + 3*12 + 1 + 2 + 64)
		pinDest(in, 0, 7, 4, 0)
		cnt := nd.IntRange(0, 3)
		pin(in, 399, byte(cnt))
		for i := 0; i < cnt; i++ {
			pin(in, 400+12*i+9, 0, 0, 0) // empty transport string, empty options
		}
		pin(in, 400+12*cnt+1, 0, 0) // empty options
		ri, _, err := router_info.ReadRouterInfo(in)
		if err == nil {
			_, _ = ri.Bytes()
		}
	case 3:
		in := nd.Bytes(391 + 256 + 32 + 1 + 2*44 + 64)
		pinDest(in, 0, 7, 0, 0)
		nd.Assume(in[391] == 0 && in[391+255] >= 2)
		ls, err := lease_set.ReadLeaseSet(in)
		if err == nil {
			_, _ = ls.Bytes()
			_ = ls.Validate()
		}
	}
}
