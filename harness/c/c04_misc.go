package c

import (
	"verifh/nd"

	"github.com/go-i2p/common/base32"
	"github.com/go-i2p/common/base64"
	"github.com/go-i2p/common/data"
	"github.com/go-i2p/common/encrypted_leaseset"
	"github.com/go-i2p/common/key_certificate"
	"github.com/go-i2p/common/lease_set"
	"github.com/go-i2p/common/lease_set2"
	"github.com/go-i2p/common/meta_leaseset"
	"github.com/go-i2p/common/offline_signature"
	"github.com/go-i2p/common/router_address"
	"github.com/go-i2p/common/router_info"
	"github.com/go-i2p/common/signature"
)

// H_C04_Decoders: exported decoders and constructors that take bytes plus a type/size argument: every input of the stated lengths, type/size arguments free 64-bit integers; the obligation is "returns normally" (panics are implicit obligations of the executor).
//
//verif:props C04
//verif:fanout 300
func H_C04_Decoders() {
	switch nd.IntRange(0, 8) {
	case 0:
		_, _ = base32.DecodeString(nd.String(nd.IntRange(0, 4)))
	case 1:
		_, _ = base32.DecodeStringNoPadding(nd.String(nd.IntRange(0, 4)))
	case 2:
		_, _ = base64.DecodeString(nd.String(nd.IntRange(0, 3)))
	case 3:
		_, _ = data.DecodeIntN(nd.Bytes(nd.IntRange(0, 10)))
		_, _ = data.NewIntegerFromBytes(nd.Bytes(nd.IntRange(0, 10)))
	case 4:
		_, _ = data.NewHashFromSlice(nd.Bytes(nd.IntRange(30, 34)))
		_, _, _ = data.ReadHash(nd.Bytes(nd.IntRange(30, 34)))
	case 5:
		t := nd.Int()
		lens := []int{0, 1, 31, 32, 33, 63, 64, 65, 95, 96, 97, 127, 128, 129, 132, 256}
		k, err := key_certificate.ConstructSigningPublicKeyByType(nd.Bytes(lens[nd.IntRange(0, len(lens)-1)]), t)
		if err == nil && k != nil {
			_ = k.Len()
			_ = k.Bytes()
		}
	case 6:
		kc := key_certificate.KeyCertificate{SpkType: nd.Bytes(2), CpkType: nd.Bytes(2)}
		lens := []int{0, 31, 32, 255, 256, 257, 384}
		b := nd.Bytes(lens[nd.IntRange(0, len(lens)-1)])
		if nd.Bool() {
			p, err := kc.ConstructPublicKey(b)
			if err == nil && p != nil {
				_ = p.Len()
			}
		} else {
			p, err := kc.ConstructSigningPublicKey(b)
			if err == nil && p != nil {
				_ = p.Len()
			}
		}
	case 7:
		t := nd.Int()
		_, _, _ = signature.ReadSignature(nd.Bytes([]int{0, 39, 40, 64, 96, 132, 256, 384, 512}[nd.IntRange(0, 8)]), t)
		_, _ = signature.NewSignatureFromBytes(nd.Bytes([]int{0, 40, 64}[nd.IntRange(0, 2)]), t)
		_, _ = signature.SignatureSize(t)
	case 8:
		_, _ = data.NewI2PStringFromBytes(nd.Bytes(nd.IntRange(0, 4)))
		s := data.I2PString(nd.Bytes(nd.IntRange(0, 4)))
		_, _ = s.Data()
		_, _ = s.DataSafe()
		_, _ = s.Length()
	}
}

// H_C04_HeaderFree: composite parsers with their COUNT bytes free (0..255): number of keys and leases (LeaseSet2, key lengths pinned to 0), number of entries (MetaLeaseSet, properties pinned empty), number of addresses (RouterInfo, minimal addresses), lease count (LeaseSet).
//
//verif:props C04
//verif:fanout 300
func H_C04_HeaderFree() {
	which := nd.IntRange(0, 5)
	covShape("case", which)
	switch which {
	case 4:
		// one encryption key whose 16-bit LENGTH field is free (all 65,536 values: the solver splits them into
		// "fits the buffer" -- enumerated, at most ~100 values -- and "does not fit")
		in := nd.Bytes(391 + 8 + 2 + 1 + 4 + 100)
		pinDest(in, 0, 7, 4, 0)
		nd.Assume(in[398]&1 == 0)
		pin(in, 399, 0, 0, 1, 0, 0xff)
		ls, _, err := lease_set2.ReadLeaseSet2(in)
		if err == nil {
			_, _ = ls.Bytes()
		}
	case 5:
		// EncryptedLeaseSet with a free 16-bit inner length
		in := nd.Bytes(2 + 32 + 8 + 2 + 70 + 64)
		pin(in, 0, 0, 11)
		nd.Assume(in[41]&1 == 0)
		e, _, err := encrypted_leaseset.ReadEncryptedLeaseSet(in)
		if err == nil {
			_, _ = e.Bytes()
		}
	case 0:
		in := nd.Bytes(560)
		pinDest(in, 0, 7, 4, 0)
		nd.Assume(in[398]&1 == 0)
		pin(in, 399, 0, 0) // empty options
		for i := 0; i < 17; i++ {
			pin(in, 402+4*i, 0, 0xff, 0, 0) // every possible key header: unknown type 255, length 0
		}
		ls, _, err := lease_set2.ReadLeaseSet2(in)
		if err == nil {
			_, _ = ls.Bytes()
			_ = ls.Validate()
		}
	case 1:
		in := nd.Bytes(600)
		pinDest(in, 0, 7, 4, 0)
		nd.Assume(in[398]&1 == 0)
		pin(in, 399, 0, 0)
		for i := 0; i < 4; i++ {
			pin(in, 402+40*i+32, 3) // entry type
			pin(in, 402+40*i+38, 0, 0)
		}
		m, _, err := meta_leaseset.ReadMetaLeaseSet(in)
		if err == nil {
			_, _ = m.Bytes()
			_ = m.NumEntries()
		}
	case 2:
		in := nd.Bytes(391 + 8 + 1 + 3*12 + 1 + 2 + 64)
		pinDest(in, 0, 7, 4, 0)
		cnt := nd.IntRange(0, 3)
		pin(in, 399, byte(cnt))
		for i := 0; i < cnt; i++ {
			pin(in, 400+12*i+9, 0, 0, 0) // empty transport string, empty options
		}
		pin(in, 400+12*cnt+1, 0, 0) // empty options
		ri, _, err := router_info.ReadRouterInfo(in)
		if err == nil {
			_, _ = ri.Bytes()
		}
	case 3:
		in := nd.Bytes(391 + 256 + 32 + 1 + 2*44 + 64)
		pinDest(in, 0, 7, 0, 0)
		nd.Assume(in[391] == 0 && in[391+255] >= 2)
		ls, err := lease_set.ReadLeaseSet(in)
		if err == nil {
			_, _ = ls.Bytes()
			_ = ls.Validate()
		}
	}
}

// denseCut draws a truncation length for an encoding of length total: every length in the last 170 bytes (leases,
// keys, offline block, signature) and around the end of the destination, every 16th elsewhere; thorough: every length.
func denseCut(total, destEnd int) int {
	if nd.Thorough() {
		return nd.IntRange(0, total-1)
	}
	var cs []int
	for k := 0; k < total; k++ {
		if k >= total-170 || (k >= destEnd-9 && k <= destEnd+24) || k%16 == 0 {
			cs = append(cs, k)
		}
	}
	return cs[nd.IntRange(0, len(cs)-1)]
}

// H_C04_Truncation: well-formed composite encodings (content symbolic) cut at every length near each variable-length
// region (mappings empty, except one MetaLeaseSet entry with a 30-byte one-pair properties mapping: mapping cuts are C03_Small's): the parser returns (an error), it does not panic.  LeaseSet (legacy), LeaseSet2, MetaLeaseSet,
// EncryptedLeaseSet, RouterInfo.
//
//verif:props C04 C03
//verif:witness cut-rejected
//verif:fanout 1000
func H_C04_Truncation() {
	which := nd.IntRange(0, 4)
	covShape("case", which)
	switch which {
	case 0:
		shapes := []lsShape{{7, 0, 0, 1, 0}, {7, 0, 0, 2, 0}, {-1, 0, 0, 1, 0}}
		s := shapes[nd.IntRange(0, len(shapes)-1)]
		in, total := s.build()
		dl := destLen(s.sigT, s.excess)
		nd.Assume(in[dl] == 0 && in[dl+255] >= 2)
		k := denseCut(total, dl)
		_, err := lease_set.ReadLeaseSet(in[:k])
		nd.Assert(err != nil, "trunc/ls/proper-prefix-rejected")
		nd.Cover("cut-rejected")
	case 1:
		shapes := []ls2Shape{{7, 4, 0, -1, 0, []int{32}, 1, 0}, {7, 4, 0, 7, 0, []int{32, 0}, 2, 0}}
		s := shapes[nd.IntRange(0, len(shapes)-1)]
		in, total := s.build()
		k := denseCut(total, 391)
		_, _, err := lease_set2.ReadLeaseSet2(in[:k])
		nd.Assert(err != nil, "trunc/ls2/proper-prefix-rejected")
		nd.Cover("cut-rejected")
	case 2:
		shapes := []metaShape{{7, 4, 0, -1, 0, []int{0, 0}, 0}, {7, 4, 0, 7, 0, []int{0}, 0}, {7, 4, 0, -1, 0, []int{30, 0}, 0}}
		si := nd.IntRange(0, len(shapes)-1)
		s := shapes[si]
		in, total := s.build()
		if si == 2 {
			// first entry with 30 bytes of properties: one pair, 10-byte key and 16-byte value (contents free), so
			// that the second entry starts beyond the structure's minimum size
			pin(in, 442, 10)
			pin(in, 453, '=', 16)
			pin(in, 471, ';')
		}
		k := denseCut(total, 391)
		_, _, err := meta_leaseset.ReadMetaLeaseSet(in[:k])
		nd.Assert(err != nil, "trunc/meta/proper-prefix-rejected")
		nd.Cover("cut-rejected")
	case 3:
		shapes := []encShape{{11, -1, 61, 0}, {11, 7, 62, 0}}
		s := shapes[nd.IntRange(0, 1)]
		in, total := s.build()
		k := denseCut(total, 34)
		_, _, err := encrypted_leaseset.ReadEncryptedLeaseSet(in[:k])
		nd.Assert(err != nil, "trunc/enc/proper-prefix-rejected")
		nd.Cover("cut-rejected")
	case 4:
		shapes := []riShape{{7, 4, 0, []raShape{{2, 0}}, 0, 0}}
		if nd.Thorough() {
			shapes = append(shapes, riShape{7, 4, 0, []raShape{{0, 0}, {1, 0}}, 0, 0})
		}
		s := shapes[nd.IntRange(0, len(shapes)-1)]
		in, total := s.build()
		k := denseCut(total, 391)
		_, _, err := router_info.ReadRouterInfo(in[:k])
		nd.Assert(err != nil, "trunc/ri/proper-prefix-rejected")
		nd.Cover("cut-rejected")
	}
}

// H_C04_OfflineFree: the offline-signature block with its 16-bit transient type FREE (all 65,536 codes) and the
// destination signature type argument free, stand-alone and inside LeaseSet2 / MetaLeaseSet / EncryptedLeaseSet;
// the size lookups with a free code.  Inside the composites the buffer ends at or one byte after an Ed25519 block, so
// that what follows the block (options of symbolic size) is not explored here.
//
//verif:props C04
func H_C04_OfflineFree() {
	switch nd.IntRange(0, 4) {
	case 0:
		t := nd.Uint16()
		_ = offline_signature.SigningPublicKeySize(t)
		_ = offline_signature.SignatureSize(t)
	case 1:
		in := nd.Bytes([]int{5, 6, 38, 102, 110, 300}[nd.IntRange(0, 5)])
		o, _, err := offline_signature.ReadOfflineSignature(in, nd.Uint16())
		if err == nil {
			_ = o.Bytes()
			_ = o.Len()
		}
	case 2:
		in := nd.Bytes(391 + 8 + 6 + []int{0, 96, 97}[nd.IntRange(0, 2)])
		pinDest(in, 0, 7, 4, 0)
		nd.Assume(in[398]&1 == 1)
		_, _, _ = lease_set2.ReadLeaseSet2(in)
	case 3:
		in := nd.Bytes(391 + 8 + 6 + []int{0, 96, 97}[nd.IntRange(0, 2)])
		pinDest(in, 0, 7, 4, 0)
		nd.Assume(in[398]&1 == 1)
		_, _, _ = meta_leaseset.ReadMetaLeaseSet(in)
	case 4:
		in := nd.Bytes(2 + 32 + 8 + 6 + []int{0, 96, 97}[nd.IntRange(0, 2)])
		pin(in, 0, 0, 11)
		nd.Assume(in[41]&1 == 1)
		_, _, _ = encrypted_leaseset.ReadEncryptedLeaseSet(in)
	}
}

// riWithOption: a RouterInfo encoding (Ed25519/X25519 identity, no addresses) whose options hold one pair with the
// given well-known key and a symbolic value of vlen bytes.
func riWithOption(key string, vlen int) []byte {
	pl := 1 + len(key) + 1 + 1 + vlen + 1
	in := nd.Bytes(391 + 8 + 1 + 1 + 2 + pl + 64)
	pinDest(in, 0, 7, 4, 0)
	pin(in, 399, 0, 0, byte(pl>>8), byte(pl), byte(len(key)))
	for i := 0; i < len(key); i++ {
		pin(in, 404+i, key[i])
	}
	p := 404 + len(key)
	pin(in, p, '=', byte(vlen))
	pin(in, p+2+vlen, ';')
	return in
}

// H_C04_KnownOptions: the accessors that interpret well-known options ("router.version", "caps" of a RouterInfo;
// "host", "port", "i", "s", "v", "caps" and the introducer keys of a RouterAddress) on ARBITRARY values of 0..5 (RouterAddress:
// 0..3) bytes under exactly those keys (the free-form sweeps never hit a particular key): every exported method returns normally.
//
//verif:props C04 C20
//verif:witness swept
//verif:fanout 400
func H_C04_KnownOptions() {
	if nd.Bool() {
		key := []string{"router.version", "caps", "netId"}[nd.IntRange(0, 2)]
		in := riWithOption(key, nd.IntRange(0, 5))
		ri, _, err := router_info.ReadRouterInfo(in)
		if err != nil {
			return
		}
		nd.Cover("swept")
		sweep_router_info_RouterInfo(&ri, nd.IntRange(0, n_sweep_router_info_RouterInfo-1))
		return
	}
	keys := []string{"host", "port", "i", "s", "v", "caps", "mtu", "ihost0", "iport0", "ikey0", "itag0", "iexp0"}
	key := keys[nd.IntRange(0, len(keys)-1)]
	a, err := router_address.NewRouterAddress(nd.Byte(), nowZero(), "SSU2", map[string]string{key: nd.String(nd.IntRange(0, 3))})
	if err != nil || a == nil {
		return
	}
	nd.Cover("swept")
	sweep_router_address_RouterAddress(a, nd.IntRange(0, n_sweep_router_address_RouterAddress-1))
}
